"""C19 - radial profiles and curves of growth vs. aperture photometry.

SYM: the unmodified CurveOfGrowth / RadialProfile run on symbolic data and
error arrays; each profile value must equal the circular-aperture sums of the
unmasked (and automatically NaN-masked) data built independently from the
aperture weights.  Normalisation histories and the encircled-energy
interpolators are checked on concrete data with solver-chosen histories.
"""
import warnings

import numpy as np
import z3

from ..sym import (Stats, SymBool, SymReal, explore, nanflag, same, symarray,
                   zsum,
                   term)
from ..util import arr_from_witness, mask_from_witness, snapshot, unchanged

META = dict(
    functions=['photutils.profiles.core:ProfileBase.__init__',
               'photutils.profiles.core:ProfileBase._compute_mask',
               'photutils.profiles.core:ProfileBase._photometry',
               'photutils.profiles.core:ProfileBase.normalize',
               'photutils.profiles.core:ProfileBase.unnormalize',
               'photutils.profiles.radial_profile:RadialProfile.profile',
               'photutils.profiles.radial_profile:RadialProfile.profile_error',
               'photutils.profiles.radial_profile:RadialProfile.area',
               'photutils.profiles.radial_profile:RadialProfile.data_profile',
               'photutils.profiles.curve_of_growth:CurveOfGrowth.profile',
               'photutils.profiles.curve_of_growth:CurveOfGrowth.calc_ee_at_radius',
               'photutils.profiles.curve_of_growth:CurveOfGrowth.calc_radius_at_ee'],
    bounds=('symbolic data and error (NaN-extended, at most one NaN each) '
            'on 4x4, 4x6, 6x4 (thorough 5x5, 5x7) images, <=1 masked pixel, '
            'centres at the middle / near each edge / off the edge, radii '
            'arrays starting at 0 or not and non-uniform, methods exact / '
            'center / subpixel(3); normalisation + encircled-energy '
            'histories of length <=4 (thorough 5) on concrete data'),
    assumptions=['floats as NaN-extended reals',
                 'compiled circular mask weights taken as given (C01)',
                 'areas (pure float sums) compared with tolerance 1e-9'],
    stubs=['numpy facade'],
    outside=['monotonicity of the curve of growth between the listed radii '
             'sets (weight monotonicity in r for arbitrary r is geometry, '
             'C01)',
             'interpolator values between the sampled radii'],
    min_obligations=30,
)

CENTRES = {'mid': None, 'left': (0.3, 1.7), 'bottom': (2.2, -0.4),
           'right': None, 'top': None, 'off': (-1.6, 1.2)}
RADII = {'from0': [0.0, 0.8, 1.7, 3.1], 'pos': [0.6, 1.5, 2.2],
         'wide': [0.0, 2.0, 5.0]}


def _centre(name, shape):
    H, W = shape
    if name == 'mid':
        return ((W - 1) / 2 + 0.2, (H - 1) / 2 - 0.3)
    if name == 'right':
        return (W - 1.2, 1.4)
    if name == 'top':
        return (1.8, H - 0.7)
    return CENTRES[name]


def _sums(H, W, data, err, mask, weights, bbox):
    tot, var, area = z3.RealVal(0), z3.RealVal(0), 0.0
    totnan, varnan = z3.BoolVal(False), z3.BoolVal(False)
    over = False
    for j in range(weights.shape[0]):
        for i in range(weights.shape[1]):
            y, x = bbox.iymin + j, bbox.ixmin + i
            if not (0 <= y < H and 0 <= x < W):
                continue
            over = True
            w = float(weights[j, i])
            if w <= 0 or mask[y, x]:
                continue
            tot = tot + z3.RealVal(repr(w)) * term(data[y, x]) if False else \
                tot + term(SymReal(z3.RealVal(0)) + w) * term(data[y, x])
            area += w
            if err is not None:
                var = var + term(SymReal(z3.RealVal(0)) + w) * term(
                    err[y, x]) * term(err[y, x])
    return tot, var, area, over


def _run_sym(case):
    from .. import facade
    facade.install()
    from photutils.aperture import CircularAperture
    from photutils.profiles import CurveOfGrowth, RadialProfile
    H, W = case['shape']
    method, sp = case['method']
    xycen = _centre(case['centre'], (H, W))
    radii = RADII[case['radii']]
    twin = case.get('twin')
    cnt = dict(n=0)
    samples = []

    def fn(ctx):
        nn = case.get('nan', 'data')
        data = symarray(ctx, 'd', (H, W), nan=(nn in ('data', 'both')))
        err = symarray(ctx, 'e', (H, W), nan=(nn in ('err', 'both')))
        if nn in ('data', 'both'):
            ctx.assume(z3.Sum([z3.If(nanflag(v), 1, 0)
                               for v in data.flat]) <= 1)
        if nn in ('err', 'both'):
            ctx.assume(z3.Sum([z3.If(nanflag(v), 1, 0)
                               for v in err.flat]) <= 1)
        mask = None
        if case['mask']:
            bits = [z3.Bool(f'm_{y}_{x}') for y in range(H) for x in range(W)]
            for b in bits:
                ctx.inputs[str(b)] = b
            ctx.assume(z3.Sum([z3.If(b, 1, 0) for b in bits]) <= 1)
            mask = np.zeros((H, W), bool)
            for i, b in enumerate(bits):
                mask.flat[i] = bool(SymBool(b))
        ds, es = snapshot(data), snapshot(err)
        ms = None if mask is None else mask.copy()
        with warnings.catch_warnings():
            warnings.simplefilter('ignore')
            cls = CurveOfGrowth if case['cls'] == 'cog' else RadialProfile
            rr = [r for r in radii if r > 0] if case['cls'] == 'cog' else radii
            obj = cls(data, xycen, rr, error=err, mask=mask, method=method,
                      subpixels=sp)
            prof = obj.profile
            perr = obj.profile_error
            area = np.asarray(obj.area, float)
        params = dict(kind='sym', cls=case['cls'], shape=[H, W],
                      centre=case['centre'], radii=case['radii'],
                      method=[method, sp], mask=case['mask'])
        # effective mask per the documentation: input mask + non-finite
        eff = np.zeros((H, W), bool)
        for y in range(H):
            for x in range(W):
                eff[y, x] = (mask is not None and mask[y, x]) or bool(
                    data[y, x].isnan()) or bool(err[y, x].isnan())
        if twin == 'nomask':
            eff[:] = False
        cum = []
        for r in rr:
            if r <= 0:
                cum.append((z3.RealVal(0), z3.RealVal(0), 0.0, True))
                continue
            am = CircularAperture(xycen, r).to_mask(method, subpixels=sp)
            cum.append(_sums(H, W, data, err, eff, am.data, am.bbox))
        conds = []
        tol = 1e-9
        if case['cls'] == 'cog':
            for k, (tot, var, ar, over) in enumerate(cum):
                if not over:
                    conds.append(nanflag(prof[k]))
                    continue
                conds.append(z3.And(z3.Not(nanflag(prof[k])),
                                    term(prof[k]) == tot))
                pe = term(perr[k])
                conds.append(z3.And(z3.Not(nanflag(perr[k])), pe >= 0,
                                    pe * pe == var))
                conds.append(z3.BoolVal(abs(area[k] - ar) <= tol))
        else:
            for k in range(len(rr) - 1):
                (t0, v0, a0, o0), (t1, v1, a1, o1) = cum[k], cum[k + 1]
                if not (o0 and o1):
                    continue
                da = a1 - a0
                if twin == 'shiftbin' and k + 2 < len(cum):
                    t1 = cum[k + 2][0]
                conds.append(z3.BoolVal(abs(area[k] - da) <= tol))
                if abs(da) < 1e-12:
                    continue      # empty bin: division by zero -> non-finite
                fa = term(SymReal(z3.RealVal(0)) + float(area[k]))
                conds.append(z3.And(z3.Not(nanflag(prof[k])),
                                    term(prof[k]) * fa == t1 - t0))
                pe = term(perr[k])
                conds.append(z3.Implies(
                    v1 - v0 >= 0,
                    z3.And(z3.Not(nanflag(perr[k])),
                           (pe * fa) * (pe * fa) == v1 - v0)))
        r_, m = ctx.holds(z3.And(conds), 'profile')
        cnt['n'] += 1
        if r_ == 'sat':
            ctx.find(f'{case["cls"]}:profile', 'profile/profile_error/area '
                     'differ from the circular-aperture sums of the unmasked '
                     'finite data', ctx.witness(m), params=params)
        if case['cls'] == 'cog' and twin in (None, 'decreasing'):
            # non-negative data => non-decreasing curve of growth (masked and
            # NaN pixels do not count; 1e-12 relative slack for the float
            # rounding of the compiled overlap weights)
            good = [term(data[y, x]) for y in range(H) for x in range(W)
                    if not eff[y, x]]
            hyp = [g >= 0 for g in good]
            if twin == 'decreasing':
                hyp = hyp[1:]
            slack = zsum(good) * z3.RealVal('1/1000000000000')
            mono = [z3.Or(nanflag(prof[k]), nanflag(prof[k + 1]),
                          term(prof[k + 1]) >= term(prof[k]) - slack)
                    for k in range(len(rr) - 1)]
            r_, m = ctx.holds(z3.Implies(z3.And(hyp), z3.And(mono)),
                              'monotone')
            if r_ == 'sat':
                ctx.find('cog:monotone', 'curve of growth decreases for '
                         'non-negative data', ctx.witness(m), params=params)
        if not (unchanged(data, ds) and unchanged(err, es)
                and (mask is None or np.array_equal(mask, ms))):
            ctx.stats.obligations += 1
            ctx.stats.sat += 1
            what = 'mask' if (mask is not None and not np.array_equal(
                mask, ms)) else 'data/error'
            ctx.find(f'{case["cls"]}:input-modified:{what}',
                     f'the caller\'s {what} array was modified',
                     ctx.witness(), params=params)
        if len(samples) < 1:
            samples.append(dict(case=case['name'],
                                profile0=str(prof[0])[:160]))

    _, st, f = explore(fn)
    return dict(stats=st, findings=f, samples=samples, nontrivial=cnt['n'])


# ---- histories incl. encircled energy -------------------------------------------
HOPS = ['profile', 'profile_error', 'data_profile', 'norm-max', 'norm-sum',
        'unnorm', 'ee']


def _hist_check(cls, hist):
    from .c09 import _mk_prof
    base = _mk_prof(cls)
    ref = dict(profile=np.array(base.profile),
               profile_error=np.array(base.profile_error))
    if cls == 'rp':
        ref['data_profile'] = np.array(base.data_profile)
    obj = _mk_prof(cls)
    norm = 1.0
    with warnings.catch_warnings():
        warnings.simplefilter('ignore')
        for k, op in enumerate(hist):
            if op == 'norm-max':
                norm *= np.nanmax(ref['profile'] / norm)
                obj.normalize('max')
            elif op == 'norm-sum':
                norm *= np.nansum(ref['profile'] / norm)
                obj.normalize('sum')
            elif op == 'unnorm':
                obj.unnormalize()
                norm = 1.0
            elif op == 'ee':
                if cls != 'cog':
                    continue
                cur = ref['profile'] / norm
                ee = obj.calc_ee_at_radius(np.array(obj.radius))
                if not np.allclose(ee, cur, rtol=1e-9):
                    return (f'calc_ee_at_radius(radius) after {hist[:k]} = '
                            f'{ee} but the profile is {cur}')
                cur = np.array(obj.profile)
                mono = np.all(np.diff(cur) > 0)
                if mono:
                    rad = obj.calc_radius_at_ee(cur[:-1])
                    if not np.allclose(rad[:-1], np.array(obj.radius)[:-2],
                                       rtol=1e-9):
                        return (f'calc_radius_at_ee(profile) after '
                                f'{hist[:k]} = {rad} != radii')
            else:
                if op == 'data_profile' and cls != 'rp':
                    continue
                v = np.array(getattr(obj, op))
                if not np.allclose(v, ref[op] / norm, rtol=1e-10, atol=0):
                    return (f'{op} after {hist[:k]} inconsistent with '
                            f'fresh/normalisation')
        for a in ref:
            v = np.array(getattr(obj, a))
            if not np.allclose(v, ref[a] / norm, rtol=1e-10, atol=0):
                return f'final {a} after {hist} inconsistent with fresh/norm'
    return None


def _run_hist(case):
    cnt = dict(n=0)
    samples = []

    def fn(ctx):
        hist = []
        for k in range(case['len']):
            op = ctx.choice(f'op{k}', (['-'] if k else []) + HOPS)
            if op == '-':
                break
            hist.append(op)
        ctx.stats.obligations += 1
        cnt['n'] += 1
        msg = _hist_check(case['cls'], hist)
        if msg is None:
            ctx.stats.unsat += 1
        else:
            ctx.stats.sat += 1
            ctx.find(f'history:{case["cls"]}:{msg.split()[0]}', msg,
                     ctx.witness(), params=dict(kind='hist', cls=case['cls'],
                                                hist=hist))
        if len(samples) < 2:
            samples.append(dict(cls=case['cls'], hist=hist))

    _, st, f = explore(fn)
    return dict(stats=st, findings=f, samples=samples, nontrivial=cnt['n'])


def _nonfinite_check(cls, method, centre, what):
    """non-finite data / error pixels are excluded exactly like masked ones
    (the symbolic model has NaN but no +-inf)."""
    from photutils.profiles import CurveOfGrowth, RadialProfile
    rng = np.random.default_rng(3)
    H, W = 15, 17
    data = rng.normal(10.0, 1.0, (H, W))
    err = 0.5 + 0.01 * np.arange(W)[None, :] + 0.02 * np.arange(H)[:, None]
    xycen = dict(mid=(8.2, 7.4), edge=(1.3, 12.8))[centre]
    rad = np.array([0.0, 1.5, 3.0, 4.5, 6.0])
    bad = [(7, 8), (5, 9), (9, 6)] if centre == 'mid' else [(12, 1), (13, 3),
                                                            (10, 2)]
    vals = dict(nan=[np.nan] * 3, inf=[np.inf, -np.inf, np.inf],
                mix=[np.inf, np.nan, -np.inf])[what]
    d2, e2 = data.copy(), err.copy()
    for (y, x), v in zip(bad[:2], vals[:2]):
        d2[y, x] = v
    e2[bad[2]] = abs(vals[2]) if not np.isnan(vals[2]) else np.nan
    mk = np.zeros((H, W), bool)
    for y, x in bad:
        mk[y, x] = True
    C = CurveOfGrowth if cls == 'cog' else RadialProfile
    rr = rad[1:] if cls == 'cog' else rad
    with warnings.catch_warnings():
        warnings.simplefilter('ignore')
        a = C(d2, xycen, rr, error=e2, method=method, subpixels=3)
        b = C(data, xycen, rr, error=err, mask=mk, method=method,
              subpixels=3)
        for q in ('profile', 'profile_error', 'area'):
            va, vb = np.asarray(getattr(a, q)), np.asarray(getattr(b, q))
            if not np.allclose(va, vb, rtol=1e-12, atol=0, equal_nan=True):
                return (f'{cls} {method} {centre}: {q} with {what} pixels '
                        f'{va} != with the same pixels masked {vb}')
    return None


def _run_nonfinite(case):
    cnt = dict(n=0)

    def fn(ctx):
        cls = ctx.choice('cls', ['cog', 'rp'])
        method = ctx.choice('method', ['exact', 'center', 'subpixel'])
        centre = ctx.choice('centre', ['mid', 'edge'])
        what = ctx.choice('what', ['nan', 'inf', 'mix'])
        ctx.stats.obligations += 1
        cnt['n'] += 1
        msg = _nonfinite_check(cls, method, centre, what)
        if case.get('twin') and msg is None and what == 'inf':
            msg = 'twin: deliberately mis-specified'
        if msg is None:
            ctx.stats.unsat += 1
        else:
            ctx.stats.sat += 1
            ctx.find(f'nonfinite:{cls}:{what}', msg, ctx.witness(),
                     params=dict(kind='nonfinite', cls=cls, method=method,
                                 centre=centre, what=what,
                                 twin=bool(case.get('twin'))))

    _, st, f = explore(fn)
    return dict(stats=st, findings=f, samples=[dict(case='nonfinite')],
                nontrivial=cnt['n'])


def run_case(case):
    if case['kind'] == 'nonfinite':
        return _run_nonfinite(case)
    return _run_hist(case) if case['kind'] == 'hist' else _run_sym(case)


def cases(tier, seed):
    cs = []

    def sym(cls, shape, centre, radii, method, mask, **kw):
        name = f'{cls}-{shape[0]}x{shape[1]}-{centre}-{radii}-{method[0]}' \
            f'{method[1]}-mask{int(mask)}' + ''.join(
                f'-{k}:{v}' for k, v in kw.items())
        cs.append(dict(kind='sym', name=name, cls=cls, shape=shape,
                       centre=centre, radii=radii, method=method, mask=mask,
                       **kw))

    methods = [('exact', 5), ('center', 5), ('subpixel', 3)]
    k = seed
    for cls in ('cog', 'rp'):
        for shape in ((4, 4), (4, 6), (6, 4)):
            for centre in ('mid', 'left', 'bottom', 'right', 'top', 'off'):
                k += 1
                if tier == 'quick' and k % 3:
                    continue
                sym(cls, shape, centre, 'from0' if k % 2 else 'pos',
                    methods[k % 3], mask=(k % 2 == 0),
                    nan=['data', 'none', 'err', 'none'][k % 4])
    sym('rp', (4, 4), 'mid', 'from0', ('exact', 5), False, nan='both')
    # nothing masked / non-finite: single path each, all edge geometries
    for cls in ('cog', 'rp'):
        for shape in ((4, 6), (6, 4), (5, 5)):
            for centre in ('mid', 'left', 'bottom', 'right', 'top', 'off'):
                for m in methods:
                    sym(cls, shape, centre, 'from0', m, False, nan='none')
    sym('rp', (4, 4), 'mid', 'from0', ('exact', 5), True, twin='nomask',
        nan='none')
    sym('rp', (4, 4), 'mid', 'from0', ('exact', 5), False, twin='shiftbin',
        nan='none')
    sym('cog', (4, 4), 'mid', 'from0', ('exact', 5), False, twin='decreasing',
        nan='none')
    cs.append(dict(kind='nonfinite', name='nonfinite-like-masked'))
    cs.append(dict(kind='nonfinite', name='nonfinite-twin', twin=True))
    for cls in ('rp', 'cog'):
        cs.append(dict(kind='hist', name=f'history-{cls}', cls=cls,
                       len=4 if tier == 'quick' else 5))
    if tier == 'thorough':
        for cls in ('cog', 'rp'):
            for shape in ((5, 5), (5, 7)):
                for centre in ('mid', 'right', 'top', 'off'):
                    for m in methods:
                        sym(cls, shape, centre, 'wide', m, True, nan='data')
    return cs


def replay(f):
    from photutils.aperture import CircularAperture
    from photutils.profiles import CurveOfGrowth, RadialProfile
    p = f['params']
    if p['kind'] == 'hist':
        msg = _hist_check(p['cls'], p['hist'])
        return msg is not None, str(msg)
    if p['kind'] == 'nonfinite':
        if p.get('twin'):
            return False, 'twin'
        msg = _nonfinite_check(p['cls'], p['method'], p['centre'], p['what'])
        return msg is not None, str(msg)
    w = f['witness']
    H, W = p['shape']
    d = arr_from_witness(w, 'd', (H, W))
    e = arr_from_witness(w, 'e', (H, W))
    mask = mask_from_witness(w, 'm', (H, W)) if p['mask'] else None
    xycen = _centre(p['centre'], (H, W))
    radii = RADII[p['radii']]
    method, sp = p['method']
    m0 = None if mask is None else mask.copy()
    with warnings.catch_warnings():
        warnings.simplefilter('ignore')
        cls = CurveOfGrowth if p['cls'] == 'cog' else RadialProfile
        rr = [r for r in radii if r > 0] if p['cls'] == 'cog' else radii
        obj = cls(d, xycen, rr, error=e, mask=mask, method=method,
                  subpixels=sp)
        prof = np.array(obj.profile)
        perr = np.array(obj.profile_error)
        area = np.array(obj.area)
    if f['key'] == 'cog:monotone':
        ok = np.where(np.isfinite(d) & np.isfinite(e) & ~(
            m0 if m0 is not None else np.zeros((H, W), bool)), d, 0.0)
        if (ok < 0).any():
            return False, 'witness has negative unmasked data'
        bad = any(np.isfinite(prof[k]) and np.isfinite(prof[k + 1])
                  and prof[k + 1] < prof[k] - 1e-12 * ok.sum()
                  for k in range(len(rr) - 1))
        return bad, f'data={d.tolist()} radii={rr} profile={prof.tolist()}'
    if 'input-modified' in f['key']:
        bad = mask is not None and not np.array_equal(mask, m0)
        return bad, f'mask before {None if m0 is None else m0.tolist()} ' \
                    f'after {None if mask is None else mask.tolist()}'
    eff = ~np.isfinite(d) | ~np.isfinite(e)
    if m0 is not None:
        eff |= m0
    cum = []
    for r in rr:
        if r <= 0:
            cum.append((0.0, 0.0, 0.0, True))
            continue
        am = CircularAperture(xycen, r).to_mask(method, subpixels=sp)
        t = v = a = 0.0
        over = False
        for j in range(am.data.shape[0]):
            for i in range(am.data.shape[1]):
                y, x = am.bbox.iymin + j, am.bbox.ixmin + i
                if 0 <= y < H and 0 <= x < W:
                    over = True
                    if am.data[j, i] > 0 and not eff[y, x]:
                        t += am.data[j, i] * d[y, x]
                        v += am.data[j, i] * e[y, x] ** 2
                        a += am.data[j, i]
        cum.append((t, v, a, over))
    bad = False
    msgs = []
    if p['cls'] == 'cog':
        for k, (t, v, a, over) in enumerate(cum):
            if not over:
                bad |= not np.isnan(prof[k])
                continue
            ok = np.isclose(prof[k], t, rtol=1e-9, atol=1e-12) and np.isclose(
                perr[k], np.sqrt(v), rtol=1e-9, atol=1e-12) and np.isclose(
                area[k], a, rtol=1e-9, atol=1e-12)
            bad |= not ok
            msgs.append(f'r={rr[k]}: got ({prof[k]},{perr[k]},{area[k]}) '
                        f'expected ({t},{np.sqrt(v)},{a})')
    else:
        for k in range(len(rr) - 1):
            (t0, v0, a0, o0), (t1, v1, a1, o1) = cum[k], cum[k + 1]
            if not (o0 and o1) or abs(a1 - a0) < 1e-12:
                continue
            exp = (t1 - t0) / (a1 - a0)
            ok = np.isclose(prof[k], exp, rtol=1e-8, atol=1e-10) and \
                np.isclose(area[k], a1 - a0, rtol=1e-9, atol=1e-12)
            if v1 - v0 >= 0:
                ok = ok and np.isclose(perr[k], np.sqrt(v1 - v0) / (a1 - a0),
                                       rtol=1e-7, atol=1e-9)
            bad |= not ok
            msgs.append(f'bin {k}: got ({prof[k]},{perr[k]},{area[k]}) '
                        f'expected ({exp},{a1 - a0})')
    return bool(bad), f'data={d.tolist()} mask=' \
        f'{None if m0 is None else m0.tolist()} ' + '; '.join(msgs)
