"""C02 - aperture sums are mask-weighted sums over unmasked in-image pixels.

SYM on the unmodified PixelAperture.do_photometry / area_overlap /
ApertureMask._get_overlap_cutouts / get_values / multiply / cutout /
aperture_photometry.  Two weight flavours: (a) real compiled masks of an enum
pool of apertures, (b) a stub PixelAperture whose to_mask returns *symbolic*
weights in [0,1] at a solver-chosen integer box offset.
"""
import warnings

import numpy as np
import z3

from ..sym import (Stats, SymArray, SymBool, SymReal, _lift, _nanz, explore,
                   nanflag, same, symarray, term)
from ..util import arr_from_witness, mask_from_witness, snapshot, unchanged

META = dict(
    functions=['photutils.aperture.core:PixelAperture.do_photometry',
               'photutils.aperture.core:PixelAperture.area_overlap',
               'photutils.aperture.mask:ApertureMask._get_overlap_cutouts',
               'photutils.aperture.mask:ApertureMask.get_values',
               'photutils.aperture.mask:ApertureMask.multiply',
               'photutils.aperture.mask:ApertureMask.cutout',
               'photutils.aperture.mask:ApertureMask.to_image',
               'photutils.aperture.bounding_box:BoundingBox.get_overlap_slices',
               'photutils.aperture.photometry:aperture_photometry'],
    bounds=('stub-weight flavour: images 1x1..3x3, mask boxes 1x1..3x3 with '
            'symbolic weights in [0,1], box offset any integer in '
            '[-boxsize, imagesize] (includes no-overlap on every side), all masks (<=2x3 images) or <=1 masked '
            'pixel (3x3); real-mask flavour: pool of circle/ellipse/rectangle '
            'apertures and annuli x {exact, center, subpixel} at '
            'inside/edge/outside/half-integer positions on 3x3 (thorough 4x4) '
            'symbolic data+error with <=2 masked pixels'),
    assumptions=['floats as NaN-extended reals, no +-inf',
                 'real-mask flavour takes the compiled mask weights as given '
                 '(C01 covers them) and checks registration/summation only'],
    stubs=['_StubAperture(PixelAperture).to_mask returning symbolic weights '
           '(public extension point: subclassing PixelAperture)',
           'numpy facade (vf/facade.py) for np.sqrt/np.asanyarray on object '
           'arrays'],
    outside=['the WCS transformation itself (compiled wcslib): sky apertures '
             'are only compared with their own to_pixel(wcs) image',
             'Quantity arithmetic', '+-inf'],
    min_obligations=50,
)


def _oracle(H, W, data, err, mask, wts, iy0, ix0, twin=None):
    """z3 terms for sum, var, area, and whether box overlaps the image."""
    mh, mw = wts.shape
    tot, var, area = z3.RealVal(0), z3.RealVal(0), z3.RealVal(0)
    totnan, varnan = z3.BoolVal(False), z3.BoolVal(False)
    overlap = False
    for j in range(mh):
        for i in range(mw):
            y, x = iy0 + j, ix0 + i
            if twin == 'shift':
                y = y + 1
            if not (0 <= y < H and 0 <= x < W):
                continue
            overlap = True
            w = wts[j, i]
            we = term(w)
            inc = we > 0
            if twin == 'ge':
                inc = we >= 0
            if mask is not None and bool(mask[y, x]) and twin != 'nomask':
                continue
            d = data[y, x]
            tot = tot + z3.If(inc, we * term(d), 0)
            totnan = z3.Or(totnan, z3.And(inc, nanflag(d)))
            area = area + z3.If(inc, we, 0)
            if err is not None:
                e = err[y, x]
                var = var + z3.If(inc, we * term(e) * term(e), 0)
                varnan = z3.Or(varnan, z3.And(inc, nanflag(e)))
    return tot, totnan, var, varnan, area, overlap


def _check_pos(ctx, label, s_out, e_out, a_out, orc, has_err, params):
    tot, totnan, var, varnan, area, overlap = orc
    # area_overlap of a compiled (float) mask is summed natively in float64;
    # the oracle sums the same weights exactly -> tolerance for that one term
    tol = z3.RealVal('1/1000000000') if params['kind'] == 'real' else 0
    if not overlap:
        ok = all(bool(np.isnan(v)) if not isinstance(v, SymReal)
                 else bool(v.isnan()) for v in [s_out, a_out] + (
                     [e_out] if has_err else []))
        ctx.stats.obligations += 1
        if ok:
            ctx.stats.unsat += 1
        else:
            ctx.stats.sat += 1
            ctx.find(label + ':no-overlap-not-nan', 'aperture box misses the '
                     f'image but result is {s_out}, {e_out}, {a_out}',
                     ctx.witness(), params=params)
        return
    conds = [z3.And(nanflag(s_out) == totnan,
                    z3.Or(totnan, term(s_out) == tot)),
             z3.And(z3.Not(nanflag(a_out)), term(a_out) - area <= tol,
                    area - term(a_out) <= tol)]
    if has_err:
        ee = term(e_out)
        conds.append(z3.And(nanflag(e_out) == varnan,
                            z3.Or(varnan, z3.And(ee >= 0, ee * ee == var))))
    r, m = ctx.holds(z3.And(conds), label)
    if r == 'sat':
        ctx.find(label + ':sum-mismatch',
                 'do_photometry/area_overlap differ from the weighted sum '
                 'over in-image, positive-weight, unmasked pixels',
                 ctx.witness(m), params=params)


def _mkmask(ctx, H, W, mode):
    if mode == 'none':
        return None
    bits = [z3.Bool(f'm_{y}_{x}') for y in range(H) for x in range(W)]
    for b in bits:
        ctx.inputs[str(b)] = b
    k = {'upto1': 1, 'upto2': 2, 'all': H * W}[mode]
    ctx.assume(z3.Sum([z3.If(b, 1, 0) for b in bits]) <= k)
    m = np.zeros((H, W), bool)
    for i, b in enumerate(bits):
        m.flat[i] = bool(SymBool(b))
    return m


def _stub_class():
    from photutils.aperture import ApertureMask, BoundingBox
    from photutils.aperture.attributes import PixelPositions
    from photutils.aperture.core import PixelAperture

    class _StubAperture(PixelAperture):
        _params = ('positions',)
        positions = PixelPositions('positions')

        def __init__(self, positions, boxes, weights):
            self.positions = positions
            self._boxes = boxes
            self._weights = weights

        @property
        def _xy_extents(self):
            return 1.0, 1.0

        @property
        def area(self):
            return 1.0

        def _to_patch(self, **kw):
            return None

        def to_mask(self, method='exact', subpixels=5):
            ms = [ApertureMask(w.copy(), b)
                  for w, b in zip(self._weights, self._boxes)]
            return ms[0] if self.isscalar else ms

        def to_sky(self, wcs):
            raise NotImplementedError

    return _StubAperture, BoundingBox


def _run_stub(case):
    from .. import facade
    facade.install()
    Stub, BoundingBox = _stub_class()
    H, W = case['shape']
    mh, mw = case['box']
    npos = case.get('npos', 1)
    twin = case.get('twin')
    has_err = case.get('err', True)
    cnt = dict(n=0)
    samples = []

    def fn(ctx):
        data = symarray(ctx, 'd', (H, W), nan=True)
        err = symarray(ctx, 'e', (H, W), nan=case.get('errnan', False)) \
            if has_err else None
        mask = _mkmask(ctx, H, W, case['mask'])
        boxes, wts, offs = [], [], []
        for k in range(npos):
            iylo, iyhi = case['iyr'] if k == 0 else (-mh, H)
            iy0 = ctx.int(f'iy{k}', iylo, iyhi).__index__()
            ix0 = ctx.int(f'ix{k}', -mw, W).__index__()
            w = symarray(ctx, f'w{k}', (mh, mw))
            for e in w.flat:
                ctx.assume(z3.And(e.e >= 0, e.e <= 1))
            boxes.append(BoundingBox(ix0, ix0 + mw, iy0, iy0 + mh))
            wts.append(w)
            offs.append((iy0, ix0))
        pos = [(0.0, 0.0)] * npos if npos > 1 else (0.0, 0.0)
        aper = Stub(pos, boxes, wts)
        snaps = [snapshot(data)] + ([snapshot(err)] if has_err else [])
        msnap = None if mask is None else mask.copy()
        s, e = aper.do_photometry(data, error=err, mask=mask)
        a = aper.area_overlap(data, mask=mask)
        s, e, a = np.atleast_1d(s), np.atleast_1d(e), np.atleast_1d(a)
        params = dict(kind='stub', shape=[H, W], box=[mh, mw], npos=npos,
                      err=has_err, mask=case['mask'])
        if len(s) != npos or (has_err and len(e) != npos) or len(a) != npos:
            ctx.find('length', f'result lengths {len(s)},{len(e)},{len(a)}',
                     ctx.witness(), params=params)
            return
        for k in range(npos):
            orc = _oracle(H, W, data, err, mask, wts[k], *offs[k], twin=twin)
            _check_pos(ctx, f'pos{k}', s[k], e[k] if has_err else None, a[k],
                       orc, has_err, params)
        cnt['n'] += 1
        # ApertureMask.get_values / multiply / cutout / to_image on pos 0
        if case.get('maskapi') and not twin:
            _mask_api(ctx, aper.to_mask() if npos == 1 else aper.to_mask()[0],
                      data, mask, wts[0], offs[0], H, W, params)
        ok = unchanged(data, snaps[0]) and (not has_err or unchanged(
            err, snaps[1])) and (mask is None or np.array_equal(mask, msnap))
        if not ok:
            ctx.find('input-modified', 'do_photometry/area_overlap modified '
                     'an input', ctx.witness(), params=params)
        if len(samples) < 2:
            samples.append(dict(case=case['name'], offsets=offs,
                                sum=str(s[0])[:200]))

    _, st, findings = explore(fn, max_seconds=case.get('max_seconds', 900))
    return dict(stats=st, findings=findings, samples=samples,
                nontrivial=cnt['n'])


def _mask_api(ctx, am, data, mask, w, off, H, W, params):
    iy0, ix0 = off
    mh, mw = w.shape
    vals = am.get_values(data, mask=mask)
    # expected list in raster order of the overlap region
    exp = []
    for j in range(mh):
        for i in range(mw):
            y, x = iy0 + j, ix0 + i
            if 0 <= y < H and 0 <= x < W and not (
                    mask is not None and mask[y, x]):
                exp.append((w[j, i], data[y, x]))
    # weights > 0 are decided on this path already; build the expectation
    conds = []
    kept = [(ww, d) for ww, d in exp if bool(ww > 0)]
    ctx.stats.obligations += 1
    if len(kept) != len(vals):
        ctx.stats.sat += 1
        ctx.find('get_values:length', f'{len(vals)} values, expected '
                 f'{len(kept)}', ctx.witness(), params=params)
        return
    ctx.stats.unsat += 1
    for v, (ww, d) in zip(vals, kept):
        conds.append(same(v, SymReal(term(ww) * term(d), _lift(d)[1])))
    # to_image
    img = am.to_image((H, W), dtype=object)
    cut = am.cutout(data, fill_value=-7.0)
    mul = am.multiply(data, fill_value=0.0)
    anyover = any(0 <= iy0 + j < H and 0 <= ix0 + i < W
                  for j in range(mh) for i in range(mw))
    if not anyover:
        ctx.stats.obligations += 1
        if img is None and cut is None and mul is None:
            ctx.stats.unsat += 1
        else:
            ctx.stats.sat += 1
            ctx.find('maskapi:none-iff-no-overlap', 'to_image/cutout/multiply '
                     'not None without overlap', ctx.witness(), params=params)
        return
    if img is None or cut is None or mul is None:
        ctx.stats.obligations += 1
        ctx.stats.sat += 1
        ctx.find('maskapi:none-iff-no-overlap', 'None despite overlap',
                 ctx.witness(), params=params)
        return
    for y in range(H):
        for x in range(W):
            j, i = y - iy0, x - ix0
            if 0 <= j < mh and 0 <= i < mw:
                conds.append(term(img[y, x]) == term(w[j, i]))
            else:
                conds.append(term(img[y, x]) == 0)
    for j in range(mh):
        for i in range(mw):
            y, x = iy0 + j, ix0 + i
            inside = 0 <= y < H and 0 <= x < W
            if inside:
                conds.append(same(cut[j, i], data[y, x]))
                d = data[y, x]
                conds.append(z3.If(
                    term(w[j, i]) == 0, term(mul[j, i]) == 0,
                    same(mul[j, i], SymReal(term(w[j, i]) * term(d),
                                            _lift(d)[1]))))
            else:
                conds.append(term(cut[j, i]) == -7)
                conds.append(term(mul[j, i]) == 0)
    r, m = ctx.holds(z3.And(conds), 'maskapi')
    if r == 'sat':
        ctx.find('maskapi:values', 'get_values/to_image/cutout/multiply '
                 'differ from the pixel-registered definition',
                 ctx.witness(m), params=params)


# ---- real compiled masks ---------------------------------------------------
def _pool():
    from photutils.aperture import (CircularAnnulus, CircularAperture,
                                    EllipticalAnnulus, EllipticalAperture,
                                    RectangularAnnulus, RectangularAperture)
    return {
        'circ-in': lambda: CircularAperture((0.7, 1.2), 1.3),
        'circ-straddle': lambda: CircularAperture((-0.4, 1.0), 1.2),
        'circ-out': lambda: CircularAperture((-3.0, -3.0), 1.0),
        'circ-far': lambda: CircularAperture((50.0, 1.0), 1.5),
        'circ-half': lambda: CircularAperture((1.5, 1.5), 1.0),
        'circ-tiny': lambda: CircularAperture((1.0, 1.0), 0.4),
        'circ-corner': lambda: CircularAperture((2.4, 2.6), 0.9),
        'circ-multi': lambda: CircularAperture(
            [(0.7, 1.2), (-3.0, -3.0), (2.4, 2.6)], 1.1),
        'ell': lambda: EllipticalAperture((1.2, 0.8), 1.6, 0.7, theta=0.6),
        'ell-at-circ': lambda: EllipticalAperture((0.7, 1.2), 1.9, 0.8,
                                                  theta=1.0),
        'circ-multi-big': lambda: CircularAperture(
            [(0.7, 1.2), (-3.0, -3.0), (2.4, 2.6)], 1.9),
        'ell-multi': lambda: EllipticalAperture(
            [(1.2, 0.8), (0.0, 2.5)], 1.6, 0.7, theta=2.0),
        'rect': lambda: RectangularAperture((1.1, 1.4), 2.0, 1.2, theta=0.4),
        'rect-edge': lambda: RectangularAperture((2.6, 0.2), 1.5, 2.5,
                                                 theta=1.1),
        'cann': lambda: CircularAnnulus((1.0, 1.3), 0.6, 1.7),
        'eann': lambda: EllipticalAnnulus((1.4, 1.0), 0.5, 1.8, 1.2,
                                          theta=0.3),
        'rann': lambda: RectangularAnnulus((0.9, 1.6), 0.8, 2.4, 1.9,
                                           theta=0.2),
        'cann-multi': lambda: CircularAnnulus([(1.0, 1.3), (2.8, -0.3)],
                                              0.6, 1.7),
        # several positions with the same sub-pixel phase (identical overlap
        # arrays): results must still be per position
        'circ-samephase': lambda: CircularAperture(
            [(0.0, 1.0), (1.0, 1.0), (2.0, 2.0), (1.0, 0.0)], 1.1),
        'cann-samephase': lambda: CircularAnnulus(
            [(0.5, 0.5), (1.5, 1.5), (1.5, 0.5)], 0.4, 1.3),
        'ell-samephase': lambda: EllipticalAperture(
            [(1.0, 0.0), (1.0, 2.0), (2.0, 1.0)], 1.4, 0.8, theta=0.5),
    }


def _run_real(case):
    from .. import facade
    facade.install()
    from photutils.aperture import aperture_photometry
    H, W = case['shape']
    twin = case.get('twin')
    method, subpix = case['method']
    mk = _pool()[case['aper']]
    cnt = dict(n=0)
    samples = []

    def fn(ctx):
        data = symarray(ctx, 'd', (H, W), nan=True)
        err = symarray(ctx, 'e', (H, W))
        mask = _mkmask(ctx, H, W, case['mask'])
        aper = mk()
        params = dict(kind='real', shape=[H, W], aper=case['aper'],
                      method=[method, subpix], mask=case['mask'])
        snaps = [snapshot(data), snapshot(err)]
        msnap = None if mask is None else mask.copy()
        s, e = aper.do_photometry(data, error=err, mask=mask, method=method,
                                  subpixels=subpix)
        a = aper.area_overlap(data, mask=mask, method=method,
                              subpixels=subpix)
        s, e, a = np.atleast_1d(s), np.atleast_1d(e), np.atleast_1d(a)
        ref = mk().to_mask(method=method, subpixels=subpix)
        refs = [ref] if aper.isscalar else ref
        if not (len(s) == len(e) == len(a) == len(refs)):
            ctx.find('length', 'result lengths', ctx.witness(), params=params)
            return
        for k, rm in enumerate(refs):
            bb = rm.bbox
            orc = _oracle(H, W, data, err, mask, rm.data, bb.iymin, bb.ixmin,
                          twin=twin)
            _check_pos(ctx, f'{case["aper"]}[{k}]', s[k], e[k], a[k], orc,
                       True, dict(params, k=k))
        # history independence on one aperture object: the masked calls above
        # must not influence later calls with another (or no) mask
        if mask is not None and mask.any() and not twin:
            s3, e3 = aper.do_photometry(data, error=err, method=method,
                                        subpixels=subpix)
            a3 = np.atleast_1d(aper.area_overlap(data, method=method,
                                                 subpixels=subpix))
            fresh = mk()
            s4, e4 = fresh.do_photometry(data, error=err, method=method,
                                         subpixels=subpix)
            a4 = np.atleast_1d(fresh.area_overlap(data, method=method,
                                                  subpixels=subpix))
            conds = []
            for k in range(len(refs)):
                conds += [same(s3[k], s4[k]),
                          same(e3[k] * e3[k], e4[k] * e4[k]),
                          same(a3[k], a4[k])]
            r, m = ctx.holds(z3.And(conds), 'history')
            if r == 'sat':
                ctx.find('history-on-aperture', 'results of an unmasked call '
                         'depend on an earlier masked call on the same '
                         'aperture object', ctx.witness(m), params=params)
        # many positions == one at a time (solver equality of the terms)
        if len(refs) > 1 and not twin:
            conds = []
            for k in range(len(refs)):
                single = type(aper)(aper.positions[k], **{
                    p: getattr(aper, p) for p in aper._params
                    if p != 'positions'})
                s1, e1 = single.do_photometry(data, error=err, mask=mask,
                                              method=method, subpixels=subpix)
                conds.append(same(s1[0], s[k]))
                conds.append(same(e1[0] * e1[0], e[k] * e[k]))
            r, m = ctx.holds(z3.And(conds), 'multi==single')
            if r == 'sat':
                ctx.find('multi-vs-single', 'many-position result differs '
                         'from one-at-a-time', ctx.witness(m), params=params)
        cnt['n'] += 1
        ok = unchanged(data, snaps[0]) and unchanged(err, snaps[1]) and (
            mask is None or np.array_equal(mask, msnap))
        if not ok:
            ctx.find('input-modified', 'input modified', ctx.witness(),
                     params=params)
        if len(samples) < 1:
            samples.append(dict(case=case['name'], sum=str(s[0])[:300]))

    _, st, findings = explore(fn, max_seconds=case.get('max_seconds', 900))
    return dict(stats=st, findings=findings, samples=samples,
                nontrivial=cnt['n'])


def _table_data(H, W):
    d = np.array([[((3 * y + 7 * x) % 11) - 2.5 + 0.25 * y * x
                   for x in range(W)] for y in range(H)], float)
    d[H // 2, W - 1] = np.nan
    e = 0.5 + np.array([[(y + 2 * x) % 5 for x in range(W)]
                        for y in range(H)], float) / 3
    m = np.zeros((H, W), bool)
    m[0, W // 2] = True
    return d, e, m


def _table_call(form, d, e, m, aps, kw):
    """aperture_photometry in one of the documented call forms."""
    import astropy.units as u
    from astropy.nddata import NDData, StdDevUncertainty
    from photutils.aperture import aperture_photometry
    if form == 'bare':
        return aperture_photometry(d, aps, error=e, mask=m, **kw), None
    if form == 'nomask':
        return aperture_photometry(d, aps, error=e, **kw), None
    if form == 'noerr':
        return aperture_photometry(d, aps, mask=m, **kw), None
    if form == 'nddata':
        nd = NDData(d, uncertainty=StdDevUncertainty(e), mask=m)
        return aperture_photometry(nd, aps, **kw), None
    if form == 'nddata-unit':
        nd = NDData(d, uncertainty=StdDevUncertainty(e), mask=m, unit=u.Jy)
        return aperture_photometry(nd, aps, **kw), u.Jy
    if form == 'quantity':
        return aperture_photometry(d * u.Jy, aps, error=e * u.Jy, mask=m,
                                   **kw), u.Jy
    raise ValueError(form)


FORMS = ['bare', 'nomask', 'noerr', 'nddata', 'nddata-unit', 'quantity']
TMETHODS = [('exact', 5), ('center', 5), ('subpixel', 3), ('subpixel', 7)]


def _table_check(form, mi, names, as_list, H=4, W=5):
    """-> None if consistent else message (concrete float run)."""
    d, e, m = _table_data(H, W)
    method, sp = TMETHODS[mi]
    kw = dict(method=method, subpixels=sp)
    pool = _pool()
    aps = [pool[n]() for n in names]
    with warnings.catch_warnings():
        warnings.simplefilter('ignore')
        tbl, unit = _table_call(form, d, e, m,
                                aps if as_list else aps[0], kw)
    mm = None if form == 'nomask' else m
    ee = None if form == 'noerr' else e
    n = len(np.atleast_2d(aps[0].positions))
    if list(tbl['id']) != list(range(1, n + 1)):
        return f'ids {list(tbl["id"])}'
    pos = np.atleast_2d(aps[0].positions)
    xc = np.asarray(getattr(tbl['xcenter'], 'value', tbl['xcenter']), float)
    yc = np.asarray(getattr(tbl['ycenter'], 'value', tbl['ycenter']), float)
    if not (np.array_equal(xc, pos[:, 0]) and np.array_equal(yc, pos[:, 1])):
        return 'xcenter/ycenter'
    for i, ap in enumerate(aps if as_list else aps[:1]):
        s, er = pool[names[i]]().do_photometry(d, error=ee, mask=mm, **kw)
        sfx = f'_{i}' if as_list else ''
        col = tbl['aperture_sum' + sfx]
        if unit is not None:
            if getattr(col, 'unit', None) != unit:
                return f'unit of aperture_sum{sfx}: {getattr(col, "unit", None)}'
            col = col.value
        if not np.array_equal(np.asarray(col, float), np.atleast_1d(s),
                              equal_nan=True):
            return f'aperture_sum{sfx} {np.asarray(col)} != {s}'
        if ee is not None:
            col = tbl['aperture_sum_err' + sfx]
            col = getattr(col, 'value', col) if unit is not None else col
            if not np.array_equal(np.asarray(col, float), np.atleast_1d(er),
                                  equal_nan=True):
                return f'aperture_sum_err{sfx} {np.asarray(col)} != {er}'
        elif 'aperture_sum_err' + sfx in tbl.colnames:
            return 'aperture_sum_err present without error'
    return None


def _sky_check(kind, mi):
    """Sky apertures give the same numbers as their to_pixel(wcs) image."""
    import astropy.units as u
    from astropy.wcs import WCS
    from photutils.aperture import (SkyCircularAnnulus, SkyCircularAperture,
                                    SkyEllipticalAperture,
                                    SkyRectangularAperture,
                                    aperture_photometry)
    H, W = 24, 30
    d = np.array([[((3 * y + 7 * x) % 11) + 0.25 * y - 0.1 * x
                   for x in range(W)] for y in range(H)], float)
    e = 0.5 + (np.arange(W)[None, :] % 4 + np.arange(H)[:, None] % 3) / 5
    m = np.zeros((H, W), bool)
    m[10, 12] = True
    w = WCS(naxis=2)
    w.wcs.crpix = [12.0, 9.0]
    w.wcs.cdelt = [-0.0002, 0.0002]
    w.wcs.crval = [150.0, 2.0]
    w.wcs.ctype = ['RA---TAN', 'DEC--TAN']
    w.wcs.pc = [[0.9, -0.1], [0.1, 0.9]]
    pos = w.pixel_to_world([11.3, 20.1, 2.2, 60.0], [9.4, 15.7, 20.5, 5.0])
    scale = 0.0002 * 3600 * u.arcsec
    ap = dict(circ=lambda: SkyCircularAperture(pos, 3.1 * scale),
              ann=lambda: SkyCircularAnnulus(pos, 1.5 * scale, 4.2 * scale),
              ell=lambda: SkyEllipticalAperture(pos, 4 * scale, 2 * scale,
                                                theta=30 * u.deg),
              rect=lambda: SkyRectangularAperture(pos, 5 * scale, 3 * scale,
                                                  theta=70 * u.deg))[kind]()
    method, sp = TMETHODS[mi]
    kw = dict(method=method, subpixels=sp)
    with warnings.catch_warnings():
        warnings.simplefilter('ignore')
        t1 = aperture_photometry(d, ap, error=e, mask=m, wcs=w, **kw)
        pix = ap.to_pixel(w)
        t2 = aperture_photometry(d, pix, error=e, mask=m, **kw)
    for c in ('aperture_sum', 'aperture_sum_err', 'xcenter', 'ycenter'):
        a = np.asarray(getattr(t1[c], 'value', t1[c]), float)
        b = np.asarray(getattr(t2[c], 'value', t2[c]), float)
        if not np.array_equal(a, b, equal_nan=True):
            return f'sky {kind}: column {c} {a} != to_pixel image {b}'
    if 'sky_center' not in t1.colnames:
        return 'sky_center column missing for a sky aperture'
    return None


def _run_table(case):
    """Call-form / table-assembly consistency.  The data are concrete floats;
    the *call form, method and aperture selection* are solver-chosen finite
    variables, enumerated exhaustively (all-SAT)."""
    groups = case.get('groups')
    cnt = dict(n=0)
    samples = []

    def fn(ctx):
        if case.get('sky'):
            kind = ctx.choice('sky', ['circ', 'ann', 'ell', 'rect'])
            mi = ctx.choice('method', len(TMETHODS))
            ctx.stats.obligations += 1
            cnt['n'] += 1
            msg = _sky_check(kind, mi)
            if msg is None:
                ctx.stats.unsat += 1
            else:
                ctx.stats.sat += 1
                ctx.find('table:sky', msg, ctx.witness(),
                         params=dict(kind='table', sky=kind, mi=mi))
            return
        form = ctx.choice('form', FORMS)
        mi = ctx.choice('method', len(TMETHODS))
        g = ctx.choice('group', len(groups))
        as_list = ctx.flag('as_list')
        names = groups[g]
        ctx.stats.obligations += 1
        msg = _table_check(form, mi, names, as_list)
        cnt['n'] += 1
        if msg is None:
            ctx.stats.unsat += 1
        else:
            ctx.stats.sat += 1
            ctx.find('table:' + form, 'aperture_photometry table differs '
                     'from do_photometry: ' + msg, ctx.witness(),
                     params=dict(kind='table', form=form, mi=mi, names=names,
                                 as_list=as_list))
        if len(samples) < 2:
            samples.append(dict(form=form, method=TMETHODS[mi], names=names,
                                as_list=as_list))

    _, st, findings = explore(fn)
    return dict(stats=st, findings=findings, samples=samples,
                nontrivial=cnt['n'])


def run_case(case):
    if case['kind'] == 'table':
        return _run_table(case)
    return _run_stub(case) if case['kind'] == 'stub' else _run_real(case)


def cases(tier, seed):
    cs = []

    def stub(shape, box, mask, **kw):
        for iy in range(-box[0], shape[0] + 1):
            if 'twin' in kw and iy != 0:
                continue
            name = f'stub-{shape[0]}x{shape[1]}-box{box[0]}x{box[1]}-{mask}' \
                + ''.join(f'-{k}:{v}' for k, v in kw.items()) + f'-iy{iy}'
            cs.append(dict(kind='stub', name=name, shape=shape, box=box,
                           mask=mask, iyr=(iy, iy), **kw))

    def real(shape, aper, method, mask, **kw):
        name = f'real-{shape[0]}x{shape[1]}-{aper}-{method[0]}{method[1]}-' \
            f'{mask}' + ''.join(f'-{k}:{v}' for k, v in kw.items())
        cs.append(dict(kind='real', name=name, shape=shape, aper=aper,
                       method=method, mask=mask, **kw))

    stub((1, 1), (1, 1), 'all', maskapi=True)
    stub((1, 1), (2, 2), 'all', maskapi=True)
    stub((2, 2), (1, 2), 'all', maskapi=True)
    stub((2, 2), (2, 2), 'all')
    stub((2, 3), (2, 1), 'all', maskapi=True)
    stub((2, 2), (2, 2), 'upto1', maskapi=True)
    stub((2, 2), (1, 1), 'upto1', npos=2)
    stub((2, 2), (2, 2), 'none', err=False)
    stub((2, 2), (1, 2), 'upto1', errnan=True)
    stub((2, 2), (2, 1), 'all', twin='shift')
    stub((2, 2), (2, 1), 'all', twin='nomask')
    methods = [('exact', 5), ('center', 5), ('subpixel', 3)]
    pool = list(_pool())
    for i, a in enumerate(pool):
        for j, m in enumerate(methods):
            if tier == 'quick' and (i + j + seed) % 3 != 0:
                continue
            real((3, 3), a, m, 'upto1')
    for a in ('circ-samephase', 'cann-samephase', 'ell-samephase'):
        for m in methods:
            if not any(c.get('aper') == a and c.get('method') == m
                       for c in cs):
                real((3, 3), a, m, 'upto1')
    cs.append(dict(kind='table', name='table-forms-a', groups=[
        ['circ-in', 'ell-at-circ'], ['circ-multi', 'circ-multi-big'],
        ['ell-multi', 'ell-multi']]))
    cs.append(dict(kind='table', name='table-forms-b', groups=[
        ['rect', 'rect'], ['cann-multi', 'cann-multi'],
        ['circ-out', 'circ-out'], ['circ-far', 'circ-far']]))
    cs.append(dict(kind='table', name='table-sky-apertures', sky=True))
    real((3, 3), 'circ-in', ('exact', 5), 'upto1', twin='shift')
    real((3, 3), 'rect', ('center', 5), 'upto1', twin='nomask')
    if tier == 'thorough':
        stub((2, 3), (2, 2), 'all', maskapi=True)
        stub((3, 2), (2, 2), 'all')
        stub((3, 3), (2, 2), 'upto1', maskapi=True)
        stub((3, 3), (1, 1), 'upto1', npos=2)
        stub((3, 3), (3, 3), 'none')
        stub((3, 3), (2, 3), 'upto1')
        stub((2, 2), (3, 3), 'upto1', maskapi=True)
        stub((2, 2), (1, 2), 'all', npos=2)
        for a in pool:
            for m in methods:
                real((4, 4), a, m, 'upto2')
            real((3, 4), a, ('exact', 5), 'upto2')
    return cs


def replay(f):
    from photutils.aperture import aperture_photometry
    w = f['witness']
    p = f['params']
    if p['kind'] == 'table' and p.get('sky'):
        msg = _sky_check(p['sky'], p['mi'])
        return msg is not None, str(msg)
    if p['kind'] == 'table':
        msg = _table_check(p['form'], p['mi'], p['names'], p['as_list'])
        return msg is not None, str(msg)
    H, W = p['shape']
    d = arr_from_witness(w, 'd', (H, W))
    mask = None if p['mask'] == 'none' else mask_from_witness(w, 'm', (H, W))
    key = f['key']
    if p['kind'] == 'stub':
        Stub, BoundingBox = _stub_class()
        mh, mw = p['box']
        e = arr_from_witness(w, 'e', (H, W)) if p['err'] else None
        boxes, wts = [], []
        for k in range(p['npos']):
            iy0, ix0 = int(w[f'iy{k}']), int(w[f'ix{k}'])
            boxes.append(BoundingBox(ix0, ix0 + mw, iy0, iy0 + mh))
            wts.append(arr_from_witness(w, f'w{k}', (mh, mw)))
        pos = [(0.0, 0.0)] * p['npos'] if p['npos'] > 1 else (0.0, 0.0)
        aper = Stub(pos, boxes, wts)
        refs = [(wt, b.iymin, b.ixmin) for wt, b in zip(wts, boxes)]
        kw = {}
    else:
        e = arr_from_witness(w, 'e', (H, W))
        aper = _pool()[p['aper']]()
        kw = dict(method=p['method'][0], subpixels=p['method'][1])
        rm = _pool()[p['aper']]().to_mask(**kw)
        rm = [rm] if aper.isscalar else rm
        refs = [(m.data, m.bbox.iymin, m.bbox.ixmin) for m in rm]
    if key == 'history-on-aperture':
        with warnings.catch_warnings():
            warnings.simplefilter('ignore')
            aper.do_photometry(d, error=e, mask=mask, **kw)
            aper.area_overlap(d, mask=mask, **kw)
            s3, e3 = aper.do_photometry(d, error=e, **kw)
            a3 = np.atleast_1d(aper.area_overlap(d, **kw))
            fresh = _pool()[p['aper']]()
            s4, e4 = fresh.do_photometry(d, error=e, **kw)
            a4 = np.atleast_1d(fresh.area_overlap(d, **kw))
        bad = not (np.allclose(s3, s4, equal_nan=True)
                   and np.allclose(e3, e4, equal_nan=True)
                   and np.allclose(a3, a4, equal_nan=True))
        return bad, f'after a masked call: sums {s3} areas {a3}; fresh ' \
                    f'aperture: sums {s4} areas {a4}'
    d0 = d.copy()
    e0 = None if e is None else e.copy()
    m0 = None if mask is None else mask.copy()
    with warnings.catch_warnings():
        warnings.simplefilter('ignore')
        s, er = aper.do_photometry(d, error=e, mask=mask, **kw)
        a = aper.area_overlap(d, mask=mask, **kw)
    if key == 'input-modified':
        bad = not np.array_equal(d, d0, equal_nan=True) or (
            e is not None and not np.array_equal(e, e0, equal_nan=True)) or (
            mask is not None and not np.array_equal(mask, m0))
        return bad, f'input modified: {bad}'
    with warnings.catch_warnings():
        warnings.simplefilter('ignore')
        if key in ('table', 'table-list'):
            t = aperture_photometry(d, aper, error=e, mask=mask, **kw)
            s = np.asarray(t['aperture_sum'])
            er = np.asarray(t['aperture_sum_err'])
    s, er, a = np.atleast_1d(s), np.atleast_1d(er), np.atleast_1d(a)
    msgs = []
    bad = False
    for k, (wt, iy0, ix0) in enumerate(refs):
        tot = var = area = 0.0
        over = False
        for j in range(wt.shape[0]):
            for i in range(wt.shape[1]):
                y, x = iy0 + j, ix0 + i
                if 0 <= y < H and 0 <= x < W:
                    over = True
                    if wt[j, i] > 0 and not (mask is not None and mask[y, x]):
                        tot += wt[j, i] * d[y, x]
                        area += wt[j, i]
                        if e is not None:
                            var += wt[j, i] * e[y, x] ** 2
        if not over:
            tot = var = area = float('nan')
        exp = [tot, area] + ([np.sqrt(var)] if e is not None else [])
        got = [s[k], a[k]] + ([er[k]] if e is not None else [])
        for g, x in zip(got, exp):
            if not (np.isclose(g, x, rtol=1e-9, atol=1e-12)
                    or (np.isnan(g) and np.isnan(x))):
                bad = True
        msgs.append(f'pos{k}: got {got} expected {exp}')
    return bad, (f'data={d.tolist()} mask='
                 f'{None if mask is None else mask.tolist()} ' +
                 '; '.join(msgs))
