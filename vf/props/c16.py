"""C16 - ApertureStats values equal direct statistics of the aperture pixel set.

SYM on the unmodified ApertureStats: symbolic data/error (NaN-extended data),
mask bits, symbolic per-position local background; real compiled masks for an
enum pool of apertures.
"""
import warnings

import numpy as np
import z3

from ..sym import (Stats, SymBool, SymReal, const, explore, nanflag,
                   poly_equal, same, symarray, term)
from ..util import arr_from_witness, mask_from_witness, snapshot, unchanged

META = dict(
    functions=['photutils.aperture.stats:ApertureStats.__init__',
               'photutils.aperture.stats:ApertureStats._make_aperture_cutouts',
               'photutils.aperture.stats:ApertureStats.sum',
               'photutils.aperture.stats:ApertureStats.sum_err',
               'photutils.aperture.stats:ApertureStats.sum_aper_area',
               'photutils.aperture.stats:ApertureStats.center_aper_area',
               'photutils.aperture.stats:ApertureStats.min',
               'photutils.aperture.stats:ApertureStats.max',
               'photutils.aperture.stats:ApertureStats.mean',
               'photutils.aperture.stats:ApertureStats.median',
               'photutils.aperture.stats:ApertureStats.var',
               'photutils.aperture.stats:ApertureStats.std',
               'photutils.aperture.stats:ApertureStats.centroid',
               'photutils.aperture.stats:ApertureStats.cutout_centroid',
               'photutils.aperture.stats:ApertureStats._all_masked',
               'photutils.utils._moments:_moments'],
    bounds=('symbolic data (NaN-extended, <=1 NaN), error, <=1 masked pixel, '
            'symbolic local background per position on 3x3 / 3x4 (thorough '
            '4x4, 4x5) images; pool of 12 apertures (circle, ellipse, '
            'rectangle, annuli; inside, straddling each edge, tiny with no '
            'pixel centre inside, off-image, two positions) x sum_method in '
            '{exact, center, subpixel(3)}; sigma_clip=None; concrete '
            'differential family: 11x12 noise image x bad column x outliers '
            'x NaN x sigma_clip {None, 2, 3 sigma; 1 or 5 iterations} x '
            'local background x sum_method x pedestal {5, 60} x {circle, '
            'rotated ellipse}: 24 columns (centre statistics incl. mode, '
            'MAD; sum / sum_err / sum_aper_area; centroid and moment-based '
            'shape values) against direct computations'),
    assumptions=['floats as NaN-extended reals',
                 'compiled mask weights taken as given (C01)',
                 'areas compared with tolerance 1e-9 (float sums)'],
    stubs=['numpy facade (incl. np.min/np.max If-chains)'],
    outside=['sigma-clipped statistics, MAD, mode and moment-based shape '
             'parameters for symbolic data (decided on the concrete '
             'differential family only); biweight statistics, gini',
             'sky apertures'],
    min_obligations=30,
)


def _pool():
    from photutils.aperture import (CircularAnnulus, CircularAperture,
                                    EllipticalAperture, RectangularAnnulus,
                                    RectangularAperture)
    return {
        'circ-in': lambda: CircularAperture((1.2, 1.1), 1.3),
        'circ-left': lambda: CircularAperture((-0.3, 1.4), 1.2),
        'circ-bottom': lambda: CircularAperture((1.6, -0.2), 1.1),
        'circ-topright': lambda: CircularAperture((2.7, 2.4), 1.2),
        'circ-tiny': lambda: CircularAperture((1.5, 1.5), 0.4),
        'circ-small': lambda: CircularAperture((1.3, 0.8), 0.9),
        'circ-small-edge': lambda: CircularAperture((0.2, 2.1), 1.05),
        'circ-tiny2': lambda: CircularAperture((0.5, 1.0), 0.3),
        'circ-off': lambda: CircularAperture((-5.0, -5.0), 1.0),
        'circ-two': lambda: CircularAperture([(1.2, 1.1), (-0.6, 2.2)], 1.2),
        'ell': lambda: EllipticalAperture((1.3, 0.9), 1.7, 0.8, theta=0.7),
        'rect': lambda: RectangularAperture((0.4, 1.6), 1.8, 1.1, theta=0.3),
        'cann': lambda: CircularAnnulus((1.1, 1.3), 0.7, 1.6),
        'rann': lambda: RectangularAnnulus((1.4, 1.0), 0.9, 2.3, 1.7,
                                           theta=0.2),
    }


def _run(case):
    from .. import facade
    facade.install()
    from photutils.aperture import ApertureStats
    H, W = case['shape']
    method, sp = case['method']
    mk = _pool()[case['aper']]
    twin = case.get('twin')
    cnt = dict(n=0)
    samples = []

    def fn(ctx):
        data = symarray(ctx, 'd', (H, W), nan=case.get('nan', True))
        if case.get('nan', True):
            ctx.assume(z3.Sum([z3.If(nanflag(v), 1, 0)
                               for v in data.flat]) <= 1)
        err = symarray(ctx, 'e', (H, W), nan=bool(case.get('errnan')))
        if case.get('errnan'):
            ctx.assume(z3.Sum([z3.If(nanflag(v), 1, 0)
                               for v in err.flat]) <= 1)
        mask = None
        if case['mask']:
            bits = [z3.Bool(f'm_{y}_{x}') for y in range(H) for x in range(W)]
            for b in bits:
                ctx.inputs[str(b)] = b
            ctx.assume(z3.Sum([z3.If(b, 1, 0) for b in bits]) <= 1)
            mask = np.zeros((H, W), bool)
            for i, b in enumerate(bits):
                mask.flat[i] = bool(SymBool(b))
        aper = mk()
        npos = 1 if aper.isscalar else len(aper)
        bk = [ctx.real(f'b{k}') for k in range(npos)]
        ds, es = snapshot(data), snapshot(err)
        ms = None if mask is None else mask.copy()
        with warnings.catch_warnings():
            warnings.simplefilter('ignore')
            st = ApertureStats(data, aper, error=err, mask=mask,
                               local_bkg=bk if npos > 1 else bk[0],
                               sum_method=method, subpixels=sp)
            got = {}
            for p in ('sum', 'sum_err', 'sum_aper_area', 'center_aper_area',
                      'min', 'max', 'mean', 'median', 'var', 'std',
                      'xcentroid', 'ycentroid', 'bbox_xmin', 'bbox_xmax',
                      'bbox_ymin', 'bbox_ymax'):
                if p == 'median' and not case.get('median'):
                    continue      # sorting forks: small apertures only
                v = getattr(st, p)
                v = getattr(v, 'value', v)
                got[p] = np.atleast_1d(v)
            mom = st.moments
            got['moments'] = mom if np.ndim(mom) == 3 else [mom]
            cc = st.cutout_centroid
            got['cutout_centroid'] = np.atleast_2d(cc)
        params = dict(shape=[H, W], aper=case['aper'], method=[method, sp],
                      mask=case['mask'])
        cmask = mk().to_mask('center')
        smask = mk().to_mask(method, subpixels=sp)
        cmask = [cmask] if npos == 1 else cmask
        smask = [smask] if npos == 1 else smask
        conds = []
        labels = []

        def add(lbl, c):
            conds.append(c)
            labels.append(lbl)

        for k in range(npos):
            def pixset(m):
                out = []
                for j in range(m.data.shape[0]):
                    for i in range(m.data.shape[1]):
                        y, x = m.bbox.iymin + j, m.bbox.ixmin + i
                        if not (0 <= y < H and 0 <= x < W):
                            continue
                        w = float(m.data[j, i])
                        if w <= 0:
                            continue
                        if mask is not None and mask[y, x] and \
                                twin != 'nomask':
                            continue
                        if bool(data[y, x].isnan()):
                            continue
                        out.append((y, x, w))
                return out
            Gs, Gc = pixset(smask[k]), pixset(cmask[k])
            b = term(bk[k])
            bb = cmask[k].bbox
            add('bbox', z3.BoolVal(
                (int(got['bbox_xmin'][k]), int(got['bbox_xmax'][k]),
                 int(got['bbox_ymin'][k]), int(got['bbox_ymax'][k]))
                == (bb.ixmin, bb.ixmax - 1, bb.iymin, bb.iymax - 1)))
            # ---- sums (sum_method weights)
            if Gs:
                tot = sum((term(const(w)) * (term(data[y, x]) - b)
                           for y, x, w in Gs), z3.RealVal(0))
                var = sum((term(const(w)) * term(err[y, x]) * term(err[y, x])
                           for y, x, w in Gs), z3.RealVal(0))
                ar = sum(w for _, _, w in Gs)
                add('sum', z3.And(z3.Not(nanflag(got['sum'][k])),
                                  term(got['sum'][k]) == tot))
                se = term(got['sum_err'][k])
                rad = ctx.radicand(se)
                varnan = z3.Or([nanflag(err[y, x]) for y, x, w in Gs])
                if rad is not None and poly_equal(rad, var):
                    add('sum_err', nanflag(got['sum_err'][k]) == varnan)
                else:
                    add('sum_err', z3.And(
                        nanflag(got['sum_err'][k]) == varnan,
                        z3.Or(varnan, z3.And(se >= 0, se * se == var))))
                a = got['sum_aper_area'][k]
                add('sum_aper_area', z3.BoolVal(
                    not _isnan(a) and abs(float(a) - ar) <= 1e-9))
            else:
                for p in ('sum', 'sum_err', 'sum_aper_area'):
                    add(p + '-nan', z3.BoolVal(_isnan(got[p][k])))
            # ---- statistics over centre-in-aperture pixels
            if Gc:
                vals = [term(data[y, x]) - b for y, x, _ in Gc]
                n = len(vals)
                mn, mx = term(got['min'][k]), term(got['max'][k])
                add('min', z3.And([mn <= v for v in vals]
                                  + [z3.Or([mn == v for v in vals])]))
                add('max', z3.And([mx >= v for v in vals]
                                  + [z3.Or([mx == v for v in vals])]))
                S = sum(vals, z3.RealVal(0))
                add('mean', term(got['mean'][k]) * n == S)
                mean = S / n
                # variance: polynomial identity (normal form), std = sqrt
                vexp = sum(((v - mean) * (v - mean) for v in vals),
                           z3.RealVal(0)) / n
                if poly_equal(term(got['var'][k]), vexp):
                    add('var', z3.BoolVal(True))
                else:
                    add('var', term(got['var'][k]) == vexp)
                sd = term(got['std'][k])
                rad = ctx.radicand(sd)
                if rad is not None and poly_equal(rad, vexp):
                    add('std', z3.BoolVal(True))
                else:
                    add('std', z3.And(sd >= 0,
                                      sd * sd == term(got['var'][k])))
                if 'median' in got:
                    md = term(got['median'][k])
                    le = z3.Sum([z3.If(v <= md, 1, 0) for v in vals])
                    ge = z3.Sum([z3.If(v >= md, 1, 0) for v in vals])
                    add('median', z3.And(2 * le >= n, 2 * ge >= n))
                add('center_aper_area', z3.BoolVal(
                    abs(float(got['center_aper_area'][k]) - n) <= 1e-9))
                # centroid: (i) raw moments in the frame of the overlap
                # cutout, (ii) cutout centroid = M/M00, (iii) image
                # coordinates = cutout coordinates + overlap origin
                x0 = max(cmask[k].bbox.ixmin, 0)
                y0 = max(cmask[k].bbox.iymin, 0)
                if twin == 'centroid':
                    x0 += 1
                mk_ = got['moments'][k]
                M00 = S
                M10 = sum(((x - x0) * v for (y, x, _), v in zip(Gc, vals)),
                          z3.RealVal(0))
                M01 = sum(((y - y0) * v for (y, x, _), v in zip(Gc, vals)),
                          z3.RealVal(0))
                add('moments', z3.And(term(mk_[0, 0]) == M00,
                                      term(mk_[0, 1]) == M10,
                                      term(mk_[1, 0]) == M01))
                xc, yc = got['xcentroid'][k], got['ycentroid'][k]
                cxc, cyc = got['cutout_centroid'][k]
                add('centroid', z3.If(
                    M00 == 0, z3.And(nanflag(xc), nanflag(yc)),
                    z3.And(z3.Not(nanflag(xc)), z3.Not(nanflag(yc)),
                           term(cxc) * term(mk_[0, 0]) == term(mk_[0, 1]),
                           term(cyc) * term(mk_[0, 0]) == term(mk_[1, 0]),
                           term(xc) - term(cxc) == x0,
                           term(yc) - term(cyc) == y0)))
            else:
                for p in ('min', 'max', 'mean', 'median', 'var', 'std',
                          'xcentroid', 'ycentroid'):
                    if p in got:
                        add(p + '-nan', z3.BoolVal(_isnan(got[p][k])))
        cnt['n'] += 1
        groups = {}
        for l, c in zip(labels, conds):
            groups.setdefault(l, []).append(c)
        for site, cl in groups.items():
            if twin and site not in ('sum', 'moments', 'centroid'):
                continue     # twins only need the cheap linear sites
            r, m = ctx.holds(z3.And(cl), site)
            if r == 'sat':
                ctx.find(f'stats:{site}', f'ApertureStats.{site} differs '
                         f'from the direct definition on the aperture pixel '
                         f'set', ctx.witness(m), params=params)
        if not (unchanged(data, ds) and unchanged(err, es)
                and (mask is None or np.array_equal(mask, ms))):
            ctx.find('stats:input-modified', 'input array modified',
                     ctx.witness(), params=params)
        if len(samples) < 1:
            samples.append(dict(case=case['name'],
                                sum=str(got['sum'][0])[:160]))

    _, st_, f = explore(fn, timeout_ms=20000)
    return dict(stats=st_, findings=f, samples=samples, nontrivial=cnt['n'])


def _isnan(v):
    if isinstance(v, SymReal):
        return bool(v.isnan())
    try:
        return bool(np.isnan(float(v)))
    except (TypeError, ValueError):
        return False


def _sigclip_check(scen):
    """Concrete differential check with a real SigmaClip (or none): the
    centre statistics must equal those of the centre-in-aperture, unmasked,
    finite pixels after the same SigmaClip applied to exactly that value
    list; sum / sum_err / sum_aper_area must equal the weighted sums for the
    chosen sum_method over the positive-weight, unmasked, finite pixels that
    survive the same clip of their *values*; shape values must follow their
    textbook definitions from the central moments of the surviving pixels."""
    from astropy.stats import SigmaClip
    from photutils.aperture import (ApertureStats, CircularAperture,
                                    EllipticalAperture)
    rng = np.random.default_rng(7)
    ped = scen.get('ped', 5.0)
    H, W = 11, 12
    data = rng.normal(ped, 1.0, (H, W))
    err = 0.5 + 0.1 * np.arange(H * W, dtype=float).reshape(H, W) / (H * W)
    mask = np.zeros(data.shape, bool)
    if scen['badcol']:
        data[:, 6] += 4.0 * scen['badcol']
        mask[:, 6] = True
    if scen['outlier']:
        data[5, 4] += scen['outlier']
        data[7, 7] += 40.0 * np.sign(scen['outlier'])
    if scen['nan']:
        data[4, 5] = np.nan
    if scen.get('inf'):
        data[6, 4] = np.inf          # non-finite but not NaN
        data[3, 6 if not scen['badcol'] else 5] = -np.inf
    aper = (CircularAperture((5.3, 5.1), 3.2) if scen.get('aper', 'c') == 'c'
            else EllipticalAperture((4.8, 5.6), 3.6, 2.1, theta=0.7))
    sc = None if scen['sigma'] is None else SigmaClip(
        sigma=scen['sigma'], maxiters=scen['iters'])
    method = scen.get('method', 'exact')
    names = ('min', 'max', 'mean', 'median', 'std', 'var', 'mode', 'mad_std',
             'sum', 'sum_err', 'sum_aper_area', 'center_aper_area',
             'xcentroid', 'ycentroid', 'covar_sigx2', 'covar_sigy2',
             'covar_sigxy', 'semimajor_sigma', 'semiminor_sigma',
             'eccentricity', 'elongation', 'ellipticity', 'fwhm',
             'orientation')
    with warnings.catch_warnings():
        warnings.simplefilter('ignore')
        st = ApertureStats(data, aper, error=err, mask=mask, sigma_clip=sc,
                           local_bkg=scen['bkg'], sum_method=method,
                           subpixels=3)
        got = {q: float(getattr(getattr(st, q), 'value', getattr(st, q)))
               for q in names}

    def members(wmask):
        out = []
        for j in range(wmask.data.shape[0]):
            for i in range(wmask.data.shape[1]):
                y, x = wmask.bbox.iymin + j, wmask.bbox.ixmin + i
                if 0 <= y < H and 0 <= x < W and wmask.data[j, i] > 0 and \
                        not mask[y, x] and np.isfinite(data[y, x]):
                    out.append((y, x, wmask.data[j, i]))
        return out

    def clip(vals):
        if sc is None or len(vals) == 0:
            return np.ones(len(vals), bool)
        with warnings.catch_warnings():
            warnings.simplefilter('ignore')
            m = SigmaClip(sigma=scen['sigma'], maxiters=scen['iters'])(
                np.array(vals), masked=True)
        return ~np.ma.getmaskarray(m)

    cen = members(aper.to_mask('center'))
    cv = np.array([data[y, x] - scen['bkg'] for y, x, w in cen])
    keep = clip(cv)
    v = cv[keep]
    exp = dict(min=v.min(), max=v.max(), mean=v.mean(), median=np.median(v),
               std=v.std(), var=v.var(),
               mode=3 * np.median(v) - 2 * v.mean(),
               mad_std=np.median(np.abs(v - np.median(v)))
               / 0.6744897501960817,
               center_aper_area=float(keep.sum()))
    # moments of the surviving centre pixels (negative values are kept: the
    # class documents plain image moments of the background-subtracted data)
    ys = np.array([y for (y, x, w), k_ in zip(cen, keep) if k_], float)
    xs = np.array([x for (y, x, w), k_ in zip(cen, keep) if k_], float)
    m00 = v.sum()
    if m00 != 0:
        xb, yb = (xs * v).sum() / m00, (ys * v).sum() / m00
        exp.update(xcentroid=xb, ycentroid=yb)
        sxx = ((xs - xb) ** 2 * v).sum() / m00
        syy = ((ys - yb) ** 2 * v).sum() / m00
        sxy = ((xs - xb) * (ys - yb) * v).sum() / m00
        det = sxx * syy - sxy ** 2
        if det >= 0:
            while det < (1 / 12) ** 2:
                sxx += 1 / 12
                syy += 1 / 12
                det = sxx * syy - sxy ** 2
            tr = sxx + syy
            disc = np.sqrt(max(tr * tr - 4 * det, 0.0))
            l1, l2 = (tr + disc) / 2, (tr - disc) / 2
            if l2 >= 0:
                a, b = np.sqrt(l1), np.sqrt(l2)
                exp.update(covar_sigx2=sxx, covar_sigy2=syy, covar_sigxy=sxy,
                           semimajor_sigma=a, semiminor_sigma=b,
                           eccentricity=np.sqrt(1 - l2 / l1),
                           elongation=a / b, ellipticity=1 - b / a,
                           fwhm=2 * np.sqrt(np.log(2) * (l1 + l2)),
                           orientation=np.degrees(0.5 * np.arctan2(
                               2 * sxy, sxx - syy)))
    sm = members(aper.to_mask(method, subpixels=3))
    sv = np.array([data[y, x] - scen['bkg'] for y, x, w in sm])
    sk = clip(sv)
    ww = np.array([w for y, x, w in sm])[sk]
    exp.update(sum=(ww * sv[sk]).sum(),
               sum_err=np.sqrt((ww * np.array(
                   [err[y, x] ** 2 for y, x, w in sm])[sk]).sum()),
               sum_aper_area=ww.sum())
    for q, e in exp.items():
        g = got[q]
        if scen.get('twin') and q == 'mad_std':
            e = e * 1.01
        if q == 'orientation':
            if abs((g - e + 90) % 180 - 90) > 1e-6:
                return f'{q}: ApertureStats {g} != direct {e}'
            continue
        if not np.isclose(g, e, rtol=1e-8, atol=1e-10):
            return f'{q}: ApertureStats {g} != direct {e}'
    return None


def _run_sigclip(case):
    cnt = dict(n=0)
    samples = []

    def fn(ctx):
        scen = dict(badcol=ctx.choice('badcol', [0, 1, -1]),
                    outlier=ctx.choice('outlier', [0.0, 4.0, 9.0, -6.0]),
                    nan=ctx.flag('nan'), inf=ctx.flag('inf'),
                    sigma=ctx.choice('sigma', [None, 2.0, 3.0]),
                    iters=ctx.choice('iters', [1, 5]),
                    bkg=ctx.choice('bkg', [0.0, 1.5]),
                    method=ctx.choice('method', ['exact', 'center',
                                                 'subpixel']),
                    ped=ctx.choice('ped', [5.0, 60.0]),
                    aper=case.get('aper', 'c'))
        if case.get('twin'):
            scen['twin'] = True
        ctx.stats.obligations += 1
        cnt['n'] += 1
        msg = _sigclip_check(scen)
        if msg is None:
            ctx.stats.unsat += 1
        else:
            ctx.stats.sat += 1
            ctx.find('sigclip:' + msg.split(':')[0], f'{scen}: {msg}',
                     ctx.witness(), params=dict(kind='sigclip', scen=scen))
        if len(samples) < 2:
            samples.append(scen)

    _, st, f = explore(fn)
    return dict(stats=st, findings=f, samples=samples, nontrivial=cnt['n'])


def run_case(case):
    if case.get('kind') == 'sigclip':
        return _run_sigclip(case)
    return _run(case)


def cases(tier, seed):
    cs = []
    methods = [('exact', 5), ('center', 5), ('subpixel', 3)]
    pool = list(_pool())

    def add(shape, aper, method, mask, **kw):
        name = f'stats-{shape[0]}x{shape[1]}-{aper}-{method[0]}{method[1]}-' \
            f'mask{int(mask)}' + ''.join(f'-{k}:{v}' for k, v in kw.items())
        cs.append(dict(name=name, shape=shape, aper=aper, method=method,
                       mask=mask, **kw))

    for i, a in enumerate(pool):
        for j, m in enumerate(methods):
            if tier == 'quick' and (i + j + seed) % 3:
                continue
            add((3, 3), a, m, mask=(i + j) % 2 == 0, nan=(i + j) % 2 == 1)
    # the no-centre-inside apertures with every method
    for a in ('circ-tiny', 'circ-tiny2'):
        for m in methods:
            add((3, 3), a, m, mask=False, nan=False)
    for a, m in (('circ-in', ('exact', 5)), ('rect', ('center', 5)),
                 ('circ-left', ('subpixel', 3))):
        add((3, 3), a, m, mask=True, nan=False, errnan=True)
    cs.append(dict(name='sigclip-differential', kind='sigclip'))
    cs.append(dict(name='sigclip-differential-ellipse', kind='sigclip',
                   aper='e'))
    cs.append(dict(name='sigclip-differential-twin', kind='sigclip',
                   twin=True))
    for a in ('circ-small', 'circ-small-edge'):
        add((3, 3), a, methods[(seed + len(a)) % 3], mask=False, nan=True,
            median=True)
    add((3, 3), 'circ-in', ('exact', 5), True, nan=False, twin='nomask')
    add((3, 3), 'circ-in', ('exact', 5), False, nan=False, twin='centroid')
    if tier == 'thorough':
        for a in pool:
            for m in methods:
                add((3, 4), a, m, mask=True, nan=True)
                add((4, 4), a, m, mask=True, nan=False)
    return cs


def replay(f):
    from photutils.aperture import ApertureStats
    p = f['params']
    w = f['witness']
    if p.get('kind') == 'sigclip':
        msg = _sigclip_check(p['scen'])
        return msg is not None, str(msg)
    H, W = p['shape']
    d = arr_from_witness(w, 'd', (H, W))
    e = arr_from_witness(w, 'e', (H, W))
    mask = mask_from_witness(w, 'm', (H, W)) if p['mask'] else None
    aper = _pool()[p['aper']]()
    npos = 1 if aper.isscalar else len(aper)
    bk = [float(w.get(f'b{k}', 0.0)) for k in range(npos)]
    method, sp = p['method']
    d0, e0 = d.copy(), e.copy()
    m0 = None if mask is None else mask.copy()
    if 'input-modified' in f['key']:
        with warnings.catch_warnings():
            warnings.simplefilter('ignore')
            st = ApertureStats(d, aper, error=e, mask=mask,
                               local_bkg=bk if npos > 1 else bk[0],
                               sum_method=method, subpixels=sp)
            st.to_table(st.properties)
        bad = not np.array_equal(d, d0, equal_nan=True) or not \
            np.array_equal(e, e0, equal_nan=True) or (
            mask is not None and not np.array_equal(mask, m0))
        return bad, f'input modified: {bad}'
    with warnings.catch_warnings():
        warnings.simplefilter('ignore')
        st = ApertureStats(d, aper, error=e, mask=mask,
                           local_bkg=bk if npos > 1 else bk[0],
                           sum_method=method, subpixels=sp)
        got = {q: np.atleast_1d(getattr(getattr(st, q), 'value',
                                        getattr(st, q)))
               for q in ('sum', 'sum_err', 'sum_aper_area', 'min', 'max',
                         'mean', 'median', 'var', 'std', 'xcentroid',
                         'ycentroid', 'center_aper_area')}
    cm = _pool()[p['aper']]().to_mask('center')
    sm = _pool()[p['aper']]().to_mask(method, subpixels=sp)
    cm = [cm] if npos == 1 else cm
    sm = [sm] if npos == 1 else sm
    msgs = []
    bad = False

    def close(a, b):
        return (np.isnan(a) and np.isnan(b)) or np.isclose(a, b, rtol=1e-8,
                                                           atol=1e-10)
    for k in range(npos):
        def pix(m):
            o = []
            for j in range(m.data.shape[0]):
                for i in range(m.data.shape[1]):
                    y, x = m.bbox.iymin + j, m.bbox.ixmin + i
                    if 0 <= y < H and 0 <= x < W and m.data[j, i] > 0 and \
                            not (mask is not None and mask[y, x]) and \
                            np.isfinite(d[y, x]):
                        o.append((y, x, m.data[j, i]))
            return o
        Gs, Gc = pix(sm[k]), pix(cm[k])
        exp = {}
        if Gs:
            exp['sum'] = sum(w_ * (d[y, x] - bk[k]) for y, x, w_ in Gs)
            exp['sum_err'] = np.sqrt(sum(w_ * e[y, x] ** 2
                                         for y, x, w_ in Gs))
            exp['sum_aper_area'] = sum(w_ for _, _, w_ in Gs)
        else:
            exp['sum'] = exp['sum_err'] = exp['sum_aper_area'] = np.nan
        if Gc:
            v = np.array([d[y, x] - bk[k] for y, x, _ in Gc])
            exp.update(min=v.min(), max=v.max(), mean=v.mean(),
                       median=np.median(v), var=v.var(), std=v.std(),
                       center_aper_area=float(len(v)))
            M = v.sum()
            if M != 0:
                exp['xcentroid'] = sum(x * vv for (y, x, _), vv in
                                       zip(Gc, v)) / M
                exp['ycentroid'] = sum(y * vv for (y, x, _), vv in
                                       zip(Gc, v)) / M
        else:
            for q in ('min', 'max', 'mean', 'median', 'var', 'std',
                      'xcentroid', 'ycentroid'):
                exp[q] = np.nan
        for q, x in exp.items():
            if not close(float(got[q][k]), float(x)):
                bad = True
                msgs.append(f'pos{k} {q}: got {got[q][k]} expected {x}')
    return bad, f'data={d.tolist()} mask=' \
        f'{None if mask is None else mask.tolist()} local_bkg={bk} ' + \
        '; '.join(msgs)
