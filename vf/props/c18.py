"""C18 - rendered model images are the exact superposition of their sources.

Model evaluation is float code, so pixel values are concrete; the *table* is
symbolic in the finite sense: row order, per-row positions on a lattice that
includes edge / outside / half-window cases, per-row model_shape, presence of
local_bkg, unit-ful vs. plain model and the parameter-name mapping are solver
variables enumerated exhaustively.
"""
import warnings

import numpy as np
import z3

from ..sym import Stats, explore

META = dict(
    functions=['photutils.datasets.images:make_model_image',
               'photutils.datasets.images:_model_shape_from_bbox',
               'photutils.psf.photometry:PSFPhotometry.make_model_image',
               'photutils.psf.photometry:PSFPhotometry.make_residual_image',
               'photutils.psf.photometry:ModelImageMixin._make_model_image'],
    bounds=('image 9x11; tables of 1-3 rows, every ordered selection of row '
            'positions from a pool of 12 (inside, integer, half-integer, on '
            'the edge, outside by less/more than half a window on each '
            'side), model_shape per table in {3,4,5,(3,5)} or per-row column, '
            'local_bkg present or not, plain or unit-ful model, params_map '
            'renaming incl. a same-named decoy column, discretisation in '
            '{center, interp, oversample}; three model kinds (Gaussian PRF, '
            'ImagePSF, compound Gaussian2D+Const2D)'),
    assumptions=['finite lattice enumerated by the solver; comparison '
                 'tolerance 1e-12 absolute on O(1..100) pixel values',
                 'window rule: rows/columns [ceil(c - n/2), ceil(c - n/2)+n) '
                 'clipped to the image (astropy overlap_slices, mode=trim)'],
    stubs=[],
    outside=['positions off the lattice', 'images other than 9x11'],
    min_obligations=100,
)

SHAPE = (9, 11)
# (x, y) lattice incl. the half-window edge cases for windows 3/4/5
POS = [(4.0, 3.0), (5.5, 4.5), (2.3, 6.8), (0.0, 0.0), (10.0, 8.0),
       (-0.5, 4.0), (-2.3, 4.0), (-3.2, 4.0), (12.3, 2.0), (13.6, 2.0),
       (5.0, -2.3), (5.0, 10.4)]
FLUX = [10.0, 23.0, 7.5, 41.0, 13.0, 5.0, 19.0, 3.0, 29.0, 8.0, 17.0, 11.0]
BKG = [0.5, -0.25, 1.0, 0.0, 2.0, 0.75, 1.5, -1.0, 0.25, 3.0, 0.1, 0.6]


def _model(kind, unitful):
    import astropy.units as u
    from astropy.modeling.models import Const2D, Gaussian2D
    from photutils.psf import CircularGaussianPRF, ImagePSF
    if kind == 'prf':
        m = CircularGaussianPRF(fwhm=2.2)
        if unitful:
            m = CircularGaussianPRF(flux=1 * u.Jy, fwhm=2.2)
        return m, 'x_0', 'y_0', 'flux'
    if kind == 'image':
        yy, xx = np.mgrid[-4:5, -4:5]
        arr = np.exp(-(xx ** 2 + yy ** 2) / 3.0)
        arr /= arr.sum()
        return ImagePSF(arr), 'x_0', 'y_0', 'flux'
    g = Gaussian2D(1, 0, 0, 1.1, 1.6, theta=0.3)
    return g, 'x_mean', 'y_mean', 'amplitude'


def _window(c, n, size):
    lo = int(np.ceil(c - n / 2))
    return max(lo, 0), min(lo + n, size)


def _expected(kind, unitful, rows, mshape, per_row_shape, use_bkg,
              discretize, factor=3):
    """Independent superposition; returns (array, unit or None)."""
    from astropy.convolution import discretize_model
    model, xn, yn, fn = _model(kind, unitful)
    img = np.zeros(SHAPE)
    unit = None
    any_overlap = False
    for k, r in enumerate(rows):
        ms = per_row_shape[k] if per_row_shape else mshape
        ms = (ms, ms) if np.isscalar(ms) else ms
        x, y = POS[r]
        y0, y1 = _window(y, ms[0], SHAPE[0])
        x0, x1 = _window(x, ms[1], SHAPE[1])
        if y1 <= y0 or x1 <= x0:
            continue
        any_overlap = True
        m = model.copy()
        setattr(m, xn, x)
        setattr(m, yn, y)
        fv = FLUX[r]
        if unitful:
            fv = fv * getattr(m, fn).unit
        setattr(m, fn, fv)
        if discretize == 'center':
            yy, xx = np.mgrid[y0:y1, x0:x1]
            sub = m(xx, yy)
        else:
            sub = discretize_model(m, x_range=(x0, x1), y_range=(y0, y1),
                                   mode='linear_interp' if discretize ==
                                   'interp' else discretize, factor=factor)
        if hasattr(sub, 'unit'):
            unit = sub.unit
            sub = sub.value
        img[y0:y1, x0:x1] += sub + (BKG[r] if use_bkg else 0.0)
    return img, (unit if any_overlap else None)


def _table(kind, unitful, rows, per_row_shape, use_bkg, rename):
    import astropy.units as u
    from astropy.table import QTable
    model, xn, yn, fn = _model(kind, unitful)
    t = QTable()
    cx, cy, cf = (xn, yn, fn)
    params_map = None
    xname, yname = xn, yn
    if rename:
        # the true values live in differently named columns; a same-named
        # decoy column holds wrong values that must be ignored
        cf = 'flux_true'
        params_map = {fn: cf}
        t[fn] = [999.0] * len(rows) if not unitful else \
            [999.0] * len(rows) * u.Jy
    t[cx] = [POS[r][0] for r in rows]
    t[cy] = [POS[r][1] for r in rows]
    fl = np.array([FLUX[r] for r in rows])
    t[cf] = fl * u.Jy if unitful else fl
    if use_bkg:
        bk = np.array([BKG[r] for r in rows])
        t['local_bkg'] = bk * u.Jy if unitful else bk
    if per_row_shape:
        t['model_shape'] = [s if np.isscalar(s) else list(s)
                            for s in per_row_shape]
    return model, t, params_map, xname, yname


def _snap_table(t):
    return {c: (np.array(getattr(t[c], 'value', t[c])).copy(),
                str(getattr(t[c], 'unit', None))) for c in t.colnames}


def _check(kind, unitful, rows, mshape, per_row_shape, use_bkg, rename,
           discretize, twin=False, factor=3):
    from photutils.datasets import make_model_image
    model, t, pmap, xn, yn = _table(kind, unitful, rows, per_row_shape,
                                    use_bkg, rename)
    p0 = np.array(model.parameters).copy()
    t0 = _snap_table(t)
    kw = {}
    if not per_row_shape:
        kw['model_shape'] = mshape
    with warnings.catch_warnings():
        warnings.simplefilter('ignore')
        try:
            img = make_model_image(SHAPE, model, t, params_map=pmap,
                                   x_name=xn, y_name=yn,
                                   discretize_method=discretize,
                                   discretize_oversample=factor, **kw)
        except Exception as e:  # noqa
            return f'raised {e!r}'
    exp, unit = _expected(kind, unitful, rows, mshape, per_row_shape,
                          use_bkg and not twin, discretize, factor)
    got_unit = getattr(img, 'unit', None)
    if unitful and unit is not None and got_unit != unit:
        return f'unit of the image is {got_unit}, expected {unit}'
    val = np.asarray(getattr(img, 'value', img))
    if val.shape != SHAPE:
        return f'shape {val.shape}'
    if not np.allclose(val, exp, rtol=0, atol=1e-12):
        i = np.unravel_index(np.argmax(np.abs(val - exp)), SHAPE)
        return (f'pixel {i} = {val[i]} but the sum over rows of model on '
                f'window + local_bkg is {exp[i]}')
    if not np.array_equal(np.array(model.parameters), p0):
        return 'input model parameters were modified'
    t1 = _snap_table(t)
    if t0.keys() != t1.keys() or any(
            not np.array_equal(t0[c][0], t1[c][0]) or t0[c][1] != t1[c][1]
            for c in t0):
        return 'input table was modified'
    return None


def _run_table(case):
    cnt = dict(n=0)
    samples = []
    kind = case['model']

    def fn(ctx):
        n = ctx.choice('nrows', [1, 2, 3] if case.get('rows3') else [1, 2])
        rows = []
        pool = case.get('pool', list(range(len(POS))))
        for k in range(n):
            pk = [case['first']] if (k == 0 and case.get('first')
                                     is not None) else pool
            rows.append(ctx.choice(f'row{k}', pk))
        if len(set(rows)) != len(rows):
            return
        unitful = ctx.flag('unitful') if kind == 'prf' else False
        use_bkg = ctx.flag('local_bkg')
        rename = ctx.flag('rename') if kind == 'prf' else False
        mode = ctx.choice('shape_mode', ['3', '4', '5', '35', 'per-row'])
        per_row = None
        mshape = None
        if mode == 'per-row':
            per_row = [[3, 5, (3, 5)][(r + k) % 3] for k, r in
                       enumerate(rows)]
            # astropy tables need a homogeneous column
            per_row = [s if not np.isscalar(s) else (s, s) for s in per_row]
        else:
            mshape = dict([('3', 3), ('4', 4), ('5', 5),
                           ('35', (3, 5))])[mode]
        disc = case.get('disc', 'center')
        # (the oversampling factor only matters for 'oversample')
        factor = ctx.choice('factor', [3, 1, 2]) if disc != 'center' else 3
        ctx.stats.obligations += 1
        cnt['n'] += 1
        msg = _check(kind, unitful, rows, mshape, per_row, use_bkg, rename,
                     disc, twin=bool(case.get('twin')), factor=factor)
        params = dict(kind='table', model=kind, unitful=unitful, rows=rows,
                      mshape=mshape, per_row=per_row, use_bkg=use_bkg,
                      rename=rename, disc=disc, factor=factor)
        if msg is None:
            ctx.stats.unsat += 1
        else:
            ctx.stats.sat += 1
            first_off = rows and POS[rows[0]][0] < -2 or POS[rows[0]][0] > 12
            ctx.find(f'model_image:{kind}:{msg.split()[0]}:'
                     f'{"unit" if unitful else "plain"}', f'rows {rows} '
                     f'(positions {[POS[r] for r in rows]}): {msg}',
                     ctx.witness(), params=params)
        if len(samples) < 2:
            samples.append(params)

    _, st, f = explore(fn)
    return dict(stats=st, findings=f, samples=samples, nontrivial=cnt['n'])


def _residual_check(which, container='ndarray', include=None, cls='psf',
                    bkgsrc='column'):
    """PSFPhotometry / IterativePSFPhotometry model and residual images:
    residual == data - model image (same include_localbkg flag) for every
    accepted container, model image == make_model_image of the fit results."""
    import astropy.units as u
    from astropy.nddata import NDData
    from astropy.table import QTable
    from photutils.background import LocalBackground, MedianBackground
    from photutils.datasets import make_model_image
    from photutils.detection import DAOStarFinder
    from photutils.psf import (CircularGaussianPRF, IterativePSFPhotometry,
                               PSFPhotometry)
    model = CircularGaussianPRF(fwhm=2.4)
    src = QTable(dict(x_0=[6.0, 17.3, 24.0], y_0=[5.0, 12.2, 1.0],
                      flux=[100., 60., 30.]))
    data = make_model_image((20, 26), model, src, model_shape=(9, 9)) + 0.3
    data = data + 0.05 * np.arange(26)[None, :]       # non-constant sky
    if include is None:
        include = (which == 'bkg')
    kw = {}
    if which == 'bkg' and bkgsrc == 'estimator':
        kw['localbkg_estimator'] = LocalBackground(5, 8, MedianBackground())
    if cls == 'psf':
        ph = PSFPhotometry(model, (5, 5), aperture_radius=3, **kw)
    else:
        # (the finder runs on the residual image: its threshold carries the
        # unit of the data)
        thr = 2.0 * u.Jy if container == 'quantity' else 2.0
        ph = IterativePSFPhotometry(model, (5, 5), DAOStarFinder(thr, 2.4),
                                    aperture_radius=3, maxiters=2, **kw)
    init = QTable(dict(x=[6.1, 17.2, 24.1], y=[5.0, 12.3, 1.1]))
    if which == 'bkg' and bkgsrc == 'column':
        init['local_bkg'] = [0.4, 1.1, 1.6]
    unit = None
    arg = data
    if container == 'quantity':
        unit = u.Jy
        arg = data * unit
        if 'local_bkg' in init.colnames:
            init['local_bkg'] = init['local_bkg'] * unit
    elif container == 'nddata':
        arg = NDData(data)
    with warnings.catch_warnings():
        warnings.simplefilter('ignore')
        tbl = ph(arg, init_params=init)
        mi = ph.make_model_image(data.shape, psf_shape=(9, 9),
                                 include_localbkg=include)
        ri = ph.make_residual_image(arg, psf_shape=(9, 9),
                                    include_localbkg=include)
    if isinstance(ri, NDData):
        ri = ri.data
    val = lambda x: np.asarray(getattr(x, 'value', x), float)  # noqa
    if not np.allclose(val(ri), data - val(mi), rtol=0, atol=1e-12):
        return (f'residual image is not data - model image (max diff '
                f'{np.max(np.abs(val(ri) - (data - val(mi)))):.3g})')
    if cls == 'psf':
        t = QTable(dict(x_0=val(tbl['x_fit']), y_0=val(tbl['y_fit']),
                        flux=val(tbl['flux_fit'])))
        if include:
            t['local_bkg'] = val(tbl['local_bkg'])
        exp = make_model_image(data.shape, model, t, model_shape=(9, 9))
        if not np.allclose(val(mi), exp, rtol=0, atol=1e-10):
            return ('PSFPhotometry.make_model_image differs from '
                    'make_model_image of the fit results')
    return None


def _run_residual(case):
    cnt = dict(n=0)

    def fn(ctx):
        which = ctx.choice('which', ['plain', 'bkg'])
        container = ctx.choice('container', ['ndarray', 'quantity', 'nddata'])
        include = ctx.flag('include')
        cls = ctx.choice('cls', ['psf', 'iter'])
        bkgsrc = ctx.choice('bkgsrc', ['column', 'estimator'])
        ctx.stats.obligations += 1
        cnt['n'] += 1
        try:
            msg = _residual_check(which, container, include, cls, bkgsrc)
        except Exception as e:  # noqa
            msg = f'raised {e!r}'
        if msg is None:
            ctx.stats.unsat += 1
        else:
            ctx.stats.sat += 1
            ctx.find(f'residual:{which}:{container}:{cls}', msg,
                     ctx.witness(),
                     params=dict(kind='residual', which=which,
                                 container=container, include=include,
                                 cls=cls, bkgsrc=bkgsrc))

    _, st, f = explore(fn)
    return dict(stats=st, findings=f, samples=[dict(case='residual')],
                nontrivial=cnt['n'])


def run_case(case):
    return _run_residual(case) if case['kind'] == 'residual' else \
        _run_table(case)


def cases(tier, seed):
    cs = []
    n = len(POS)
    # split the first-row choice over cases for parallelism
    for r0 in range(n):
        rest = list(range(n))
        cs.append(dict(kind='table', name=f'table-prf-first{r0}', model='prf',
                       pool=rest, first=r0))
    for kind in ('image', 'compound'):
        cs.append(dict(kind='table', name=f'table-{kind}', model=kind,
                       pool=[0, 1, 2, 5, 6, 8, 10]))
    for disc in ('interp', 'oversample'):
        cs.append(dict(kind='table', name=f'table-prf-{disc}', model='prf',
                       pool=[0, 1, 6, 8], disc=disc))
    cs.append(dict(kind='table', name='table-twin', model='prf', pool=[0, 1],
                   twin=True))
    cs.append(dict(kind='residual', name='psfphot-model-residual'))
    if tier == 'thorough':
        cs.append(dict(kind='table', name='table-prf-3rows', model='prf',
                       pool=[0, 1, 5, 6, 7, 8, 10], rows3=True))
    return cs


def replay(f):
    p = f['params']
    if p['kind'] == 'residual':
        try:
            msg = _residual_check(p['which'], p.get('container', 'ndarray'),
                                  p.get('include'), p.get('cls', 'psf'),
                                  p.get('bkgsrc', 'column'))
        except Exception as e:  # noqa
            msg = f'raised {e!r}'
        return msg is not None, str(msg)
    per_row = p['per_row']
    if per_row:
        per_row = [tuple(s) if isinstance(s, list) else s for s in per_row]
    ms = p['mshape']
    if isinstance(ms, list):
        ms = tuple(ms)
    msg = _check(p['model'], p['unitful'], p['rows'], ms, per_row,
                 p['use_bkg'], p['rename'], p['disc'],
                 factor=p.get('factor', 3))
    return msg is not None, str(msg)
