"""C17 - centroid functions: centroid_com definition, centroid_quadratic vertex,
centroid_sources acts per source.

SYM on the unmodified photutils.centroids.core functions.
"""
import warnings
from fractions import Fraction

import numpy as np
import z3

from ..sym import (OutOfModel, Stats, SymArray, SymBool, SymReal, const,
                   explore, nanflag, same, symarray, term)
from ..util import arr_from_witness, mask_from_witness, snapshot, unchanged

META = dict(
    functions=['photutils.centroids.core:centroid_com',
               'photutils.centroids.core:centroid_quadratic',
               'photutils.centroids.core:centroid_sources',
               'photutils.utils._round:py2intround'],
    bounds=('centroid_com: symbolic NaN-extended data and all masks on 1x1.. '
            '3x3 (thorough 3x4, 4x4 with <=2 masked); centroid_quadratic: '
            'exactly quadratic symbolic data (6 symbolic coefficients) on '
            '3x3..5x5 with fit boxes 3, 5, (3,5), optional masked pixel, plus '
            'a transposition check of the fit-box selection on general '
            'symbolic data; centroid_sources: 1-3 sources at solver-chosen '
            'quarter-pixel positions in 5x6 / 6x5 images, solver-chosen '
            'presence of mask/error/xpeak,ypeak, four footprints'),
    assumptions=['floats as NaN-extended reals',
                 'numpy.linalg.lstsq replaced by the exact rational '
                 'least-squares solution of the same system (full column '
                 'rank required, else the path is out of model)'],
    stubs=['np.linalg.lstsq -> exact rational normal-equation solve',
           'recording centroid_func passed through the public centroid_func '
           'argument', 'numpy facade'],
    outside=['centroid_1dg/2dg (non-linear fits)', 'rank-deficient quadratic '
             'fits', 'float rounding'],
    min_obligations=50,
)


# ---- exact least squares ---------------------------------------------------
def _exact_lstsq(A, b):
    A = [[Fraction(int(v)) for v in row] for row in np.asarray(A)]
    n, m = len(A), len(A[0])
    AtA = [[sum(A[k][i] * A[k][j] for k in range(n)) for j in range(m)]
           for i in range(m)]
    # invert AtA (Gauss-Jordan, exact)
    M = [row[:] + [Fraction(int(i == j)) for j in range(m)]
         for i, row in enumerate(AtA)]
    for c in range(m):
        piv = next((r for r in range(c, m) if M[r][c] != 0), None)
        if piv is None:
            raise OutOfModel('rank-deficient least squares')
        M[c], M[piv] = M[piv], M[c]
        pv = M[c][c]
        M[c] = [v / pv for v in M[c]]
        for r in range(m):
            if r != c and M[r][c] != 0:
                f = M[r][c]
                M[r] = [a - f * bb for a, bb in zip(M[r], M[c])]
    inv = [row[m:] for row in M]
    P = [[sum(inv[i][j] * A[k][j] for j in range(m)) for k in range(n)]
         for i in range(m)]
    out = np.empty(m, dtype=object)
    for i in range(m):
        s = const(0)
        for k in range(n):
            if P[i][k] != 0:
                s = s + const(P[i][k]) * b[k]
        out[i] = s
    return out


_lstsq_log = []
_orig_lstsq = np.linalg.lstsq
_stop_after_lstsq = [False]


class _Stop(BaseException):
    pass


def _lstsq(A, b, rcond=None):
    if isinstance(b, np.ndarray) and b.dtype == object:
        sol = _exact_lstsq(A, b)
        _lstsq_log.append((np.asarray(A)[:, 1:3].copy(), sol))
        if _stop_after_lstsq[0]:
            raise _Stop()
        return (sol, None, None, None)
    return _orig_lstsq(A, b, rcond=rcond)


def _install():
    from .. import facade
    facade.install()
    np.linalg.lstsq = _lstsq
    import photutils.centroids.core as cc
    # np.nanargmax on object arrays: first maximal non-NaN element (forks)

    def nanargmax(a, *args, **kw):
        if isinstance(a, np.ndarray) and a.dtype == object:
            return facade.sym_argmax(a)
        return _orig_nanargmax(a, *args, **kw)
    global _orig_nanargmax
    if not hasattr(np.nanargmax, '_vf'):
        _orig_nanargmax = np.nanargmax
        nanargmax._vf = True
        np.nanargmax = nanargmax
    return cc


# ---- centroid_com ------------------------------------------------------------
def _mkmask(ctx, H, W, mode):
    if mode == 'none':
        return None, None
    bits = [z3.Bool(f'm_{y}_{x}') for y in range(H) for x in range(W)]
    for b in bits:
        ctx.inputs[str(b)] = b
    k = {'upto1': 1, 'upto2': 2, 'all': H * W}[mode]
    ctx.assume(z3.Sum([z3.If(b, 1, 0) for b in bits]) <= k)
    m = np.zeros((H, W), bool)
    for i, b in enumerate(bits):
        m.flat[i] = bool(SymBool(b))
    return m, bits


def _run_com(case):
    cc = _install()
    H, W = case['shape']
    twin = case.get('twin')
    cnt = dict(n=0)
    samples = []

    def fn(ctx):
        data = symarray(ctx, 'd', (H, W), nan=case.get('nan', True))
        mask, _ = _mkmask(ctx, H, W, case['mask'])
        ds = snapshot(data)
        ms = None if mask is None else mask.copy()
        with warnings.catch_warnings():
            warnings.simplefilter('ignore')
            xc, yc = cc.centroid_com(data, mask=mask)
        T = z3.RealVal(0)
        Sx = z3.RealVal(0)
        Sy = z3.RealVal(0)
        for y in range(H):
            for x in range(W):
                if mask is not None and mask[y, x] and twin != 'nomask':
                    continue
                d = data[y, x]
                v = z3.If(nanflag(d), 0, term(d))
                T = T + v
                Sx = Sx + (x + (1 if twin == 'shift' else 0)) * v
                Sy = Sy + y * v
        post = z3.If(T == 0,
                     z3.And(nanflag(xc), nanflag(yc)),
                     z3.And(z3.Not(nanflag(xc)), z3.Not(nanflag(yc)),
                            term(xc) * T == Sx, term(yc) * T == Sy))
        r, m = ctx.holds(post, 'com')
        cnt['n'] += 1
        params = dict(kind='com', shape=[H, W], mask=case['mask'])
        if r == 'sat':
            ctx.find('com:definition', 'centroid_com differs from the '
                     'intensity-weighted mean of unmasked finite pixels',
                     ctx.witness(m), params=params)
        if not unchanged(data, ds) or (mask is not None and not
                                       np.array_equal(mask, ms)):
            ctx.find('com:input-modified', 'centroid_com modified its input',
                     ctx.witness(), params=params)
        if len(samples) < 1:
            samples.append(dict(case=case['name'], x=str(xc)[:200]))

    _, st, f = explore(fn)
    return dict(stats=st, findings=f, samples=samples, nontrivial=cnt['n'])


# ---- centroid_quadratic -------------------------------------------------------
def _run_quad(case):
    cc = _install()
    H, W = case['shape']
    fb = case['fit']
    twin = case.get('twin')
    cnt = dict(n=0)
    samples = []

    def fn(ctx):
        if case.get('vertex'):
            # concrete vertex, symbolic curvature: pixel comparisons stay
            # linear; coefficients of the monomial basis follow
            vx, vy = (Fraction(v) for v in case['vertex'])
            k0, qa, qb, qc = (ctx.real(n) for n in ('k0', 'qa', 'qb', 'qc'))
            c = [k0 + qa * (vx * vx) + qb * (vx * vy) + qc * (vy * vy),
                 qa * (-2 * vx) + qb * (-vy), qb * (-vx) + qc * (-2 * vy),
                 qb, qa, qc]
            data = np.empty((H, W), dtype=object)
            for y in range(H):
                for x in range(W):
                    data[y, x] = (k0 + qa * ((x - vx) ** 2)
                                  + qb * ((x - vx) * (y - vy))
                                  + qc * ((y - vy) ** 2))
        else:
            c = [ctx.real(f'c{i}') for i in range(6)]
            data = np.empty((H, W), dtype=object)
            for y in range(H):
                for x in range(W):
                    data[y, x] = (c[0] + c[1] * x + c[2] * y + c[3] * (x * y)
                                  + c[4] * (x * x) + c[5] * (y * y))
        mask = None
        if case.get('maskpix') is not None:
            mask = np.zeros((H, W), bool)
            k = ctx.choice('mk', H * W)
            mask.flat[k] = True
        ds = snapshot(data)
        with warnings.catch_warnings():
            warnings.simplefilter('ignore')
            xm, ym = cc.centroid_quadratic(data, fit_boxsize=fb, mask=mask)
        ce = [term(v) for v in c]
        det = 4 * ce[4] * ce[5] - ce[3] * ce[3]
        concave = z3.And(ce[4] < 0, ce[5] < 0, det > 0)
        # location of the maximum *pixel* chosen on this path is concrete if
        # the function returned integers; we reason on the result itself:
        isnum = z3.And(z3.Not(nanflag(xm)), z3.Not(nanflag(ym)))
        xe, ye = term(xm), term(ym)
        vertex = z3.And(2 * ce[4] * xe + ce[3] * ye + ce[1] == 0,
                        ce[3] * xe + 2 * ce[5] * ye + ce[2] == 0)
        if twin == 'vertex':
            vertex = z3.And(2 * ce[4] * xe + ce[3] * ye + ce[1] == 0,
                            ce[3] * xe + 2 * ce[5] * ye + ce[2] == 1)
        # (a) whatever number is returned from a fit is the vertex of a
        #     concave quadratic strictly inside the image, or an edge pixel
        isedge = z3.Or(xe == 0, xe == W - 1, ye == 0, ye == H - 1)
        inside = z3.And(xe > 0, xe < W - 1, ye > 0, ye < H - 1)
        a = z3.Implies(isnum, z3.Or(isedge, z3.And(vertex, concave, inside)))
        r, m = ctx.holds(a, 'quad-a')
        params = dict(kind='quad', shape=[H, W], fit=list(np.atleast_1d(fb)),
                      masked=case.get('maskpix') is not None,
                      vertex=case.get('vertex'))
        if r == 'sat':
            ctx.find('quad:not-vertex', 'centroid_quadratic returned a point '
                     'that is not the vertex of the exactly quadratic input',
                     ctx.witness(m), params=params)
        # (b) a concave quadratic whose vertex is strictly inside and whose
        #     maximum pixel is interior must NOT give NaN
        if case.get('vertex') and mask is None:
            r, m = ctx.holds(z3.Implies(concave, isnum), 'quad-b')
            if r == 'sat':
                ctx.find('quad:nan-for-peak', 'NaN returned for a concave '
                         'quadratic with an interior vertex', ctx.witness(m),
                         params=params)
        cnt['n'] += 1
        if not unchanged(data, ds):
            ctx.find('quad:input-modified', 'input modified', ctx.witness(),
                     params=params)
        if len(samples) < 1:
            samples.append(dict(case=case['name'], x=str(xm)[:200]))

    _, st, f = explore(fn, timeout_ms=15000)
    return dict(stats=st, findings=f, samples=samples, nontrivial=cnt['n'])


def _run_quadT(case):
    """fit-box selection commutes with transposition (general data)."""
    cc = _install()
    H, W = case['shape']
    fb = case['fit']
    fbT = fb if np.isscalar(fb) else (fb[1], fb[0])
    cnt = dict(n=0)
    samples = []

    def fn(ctx):
        data = symarray(ctx, 'd', (H, W))
        # unique maximum so that argmax is well defined under transposition
        flat = [e.e for e in data.flat]
        ctx.assume(z3.Distinct(*flat))
        del _lstsq_log[:]
        _stop_after_lstsq[0] = True
        r1 = r2 = None
        try:
            with warnings.catch_warnings():
                warnings.simplefilter('ignore')
                try:
                    r1 = cc.centroid_quadratic(data, fit_boxsize=fb)
                except _Stop:
                    pass
                n1 = len(_lstsq_log)
                try:
                    r2 = cc.centroid_quadratic(
                        data.T.copy().view(SymArray), fit_boxsize=fbT)
                except _Stop:
                    pass
        finally:
            _stop_after_lstsq[0] = False
        ctx.stats.obligations += 1
        cnt['n'] += 1
        log1 = _lstsq_log[:n1]
        log2 = _lstsq_log[n1:]
        s1 = [sorted(map(tuple, a.tolist())) for a, _ in log1]
        s2 = [sorted((int(y), int(x)) for x, y in a.tolist())
              for a, _ in log2]
        params = dict(kind='quadT', shape=[H, W], fit=list(np.atleast_1d(fb)))
        if s1 != s2:
            ctx.stats.sat += 1
            ctx.find('quadT:fitbox', f'fit pixels for data {s1} vs. '
                     f'transposed data (mapped back) {s2}', ctx.witness(),
                     params=params)
            return
        # same pixels fitted => the fitted coefficients must be the x<->y
        # swap of each other (linear in the data); the vertex formula's
        # symmetry is covered by the exact-quadratic harness
        conds = []
        if (r1 is None) != (r2 is None):
            conds.append(z3.BoolVal(False))
        elif r1 is not None:
            conds += [same(r1[0], r2[1]), same(r1[1], r2[0])]
        for (_, ca), (_, cb) in zip(log1, log2):
            for i, j in zip(range(6), (0, 2, 1, 3, 5, 4)):
                conds.append(term(ca[i]) == term(cb[j]))
        r, m = ctx.holds(z3.And(conds), 'quadT')
        if r == 'sat':
            ctx.find('quadT:result', 'centroid_quadratic(data.T) is not the '
                     'swap of centroid_quadratic(data)', ctx.witness(m),
                     params=params)
        if len(samples) < 1:
            samples.append(dict(case=case['name'], fitpixels=s1))

    _, st, f = explore(fn, timeout_ms=10000)
    return dict(stats=st, findings=f, samples=samples, nontrivial=cnt['n'])


# ---- py2intround ------------------------------------------------------------
def _run_round(case):
    _install()
    from photutils.utils._round import py2intround
    cnt = dict(n=0)

    def fn(ctx):
        x = ctx.real('x')
        ctx.assume(z3.And(x.e > -50, x.e < 50))
        arr = np.empty(1, dtype=object)
        arr[0] = x
        v = py2intround(arr.view(SymArray))[0]
        if not isinstance(v, SymReal):
            v = const(int(v))
        ve = term(v)
        xe = x.e
        # nearest integer, ties away from zero
        post = z3.And(z3.IsInt(ve) if z3.is_real(ve) else True,
                      ve - xe <= z3.Q(1, 2), xe - ve <= z3.Q(1, 2),
                      z3.Implies(z3.And(xe >= 0, ve - xe == -z3.Q(1, 2)),
                                 False),
                      z3.Implies(z3.And(xe < 0, ve - xe == z3.Q(1, 2)),
                                 False))
        r, m = ctx.holds(post, 'round')
        cnt['n'] += 1
        if r == 'sat':
            ctx.find('py2intround', 'py2intround is not round-half-away',
                     ctx.witness(m), params=dict(kind='round'))

    _, st, f = explore(fn)
    return dict(stats=st, findings=f, samples=[dict(case='py2intround')],
                nontrivial=cnt['n'])


# ---- centroid_sources ---------------------------------------------------------
FOOTPRINTS = {
    'box3': dict(box_size=3),
    'box35': dict(box_size=(3, 5)),
    'fp-plus': dict(box_size=None,
                    footprint=np.array([[0, 1, 0], [1, 1, 1], [0, 1, 0]])),
    'fp-35': dict(box_size=None,
                  footprint=np.array([[1, 1, 0, 1, 1], [1, 1, 1, 1, 1],
                                      [0, 1, 1, 1, 0]])),
}


def _scene(shape):
    H, W = shape
    data = np.arange(H * W, dtype=float).reshape(H, W) * 1.5 + 3
    data[1, 2] = -4.0
    err = 100 + np.arange(H * W, dtype=float).reshape(H, W)
    mask = np.zeros((H, W), bool)
    mask[0, 1] = mask[2, 3] = mask[H - 1, W - 2] = True
    return data, err, mask


def _expected_slices(shape, fshape, pos):
    """Independent model of the cutout window: footprint of odd shape
    (fh, fw) centred on the pixel nearest to pos, clipped to the image."""
    out = []
    for n, f, p in zip(shape, fshape, pos):
        c = int(np.floor(p + 0.5))
        lo, hi = c - f // 2, c + f // 2 + 1
        out.append((max(lo, 0), min(hi, n), max(0, -lo)))
    return out


def _sources_check(shape, fpname, qpos, use_mask, use_err, use_peak,
                   order=None):
    """Concrete run; returns None or a message."""
    from photutils.centroids import centroid_sources
    data, err, mask = _scene(shape)
    calls = []

    def func(data, mask=None, error=None, xpeak=None, ypeak=None):
        calls.append(dict(data=np.array(data), mask=None if mask is None
                          else np.array(mask), error=None if error is None
                          else np.array(error), xpeak=xpeak, ypeak=ypeak))
        return np.array([0.25 * len(calls), 0.5])

    kw = dict(FOOTPRINTS[fpname])
    fp = kw.get('footprint')
    fshape = fp.shape if fp is not None else tuple(
        np.atleast_1d(kw['box_size']).tolist() * (
            2 if np.isscalar(kw['box_size']) else 1))
    fpm = np.ones(fshape, bool) if fp is None else fp.astype(bool)
    xs = [q[0] / 4 for q in qpos]
    ys = [q[1] / 4 for q in qpos]
    extra = {}
    if use_err:
        extra['error'] = err
    if use_peak:
        extra['xpeak'] = 2
        extra['ypeak'] = 3
    d0, e0, m0 = data.copy(), err.copy(), mask.copy()
    xc, yc = centroid_sources(data, xs, ys, mask=mask if use_mask else None,
                              centroid_func=func, **kw, **extra)
    if not (np.array_equal(d0, data) and np.array_equal(e0, err)
            and np.array_equal(m0, mask)):
        return 'input modified'
    if len(calls) != len(qpos):
        return f'{len(calls)} calls for {len(qpos)} positions'
    for i, (x, y) in enumerate(zip(xs, ys)):
        (y0, y1, sy), (x0, x1, sx) = _expected_slices(shape, fshape, (y, x))
        c = calls[i]
        if not np.array_equal(c['data'], d0[y0:y1, x0:x1]):
            return f'source {i}: data cutout {c["data"].tolist()} != ' \
                   f'data[{y0}:{y1},{x0}:{x1}]'
        em = ~fpm[sy:sy + (y1 - y0), sx:sx + (x1 - x0)]
        if use_mask:
            em = em | m0[y0:y1, x0:x1]
        if c['mask'] is None or not np.array_equal(c['mask'], em):
            return f'source {i}: mask cutout differs'
        if use_err:
            if c['error'] is None or not np.array_equal(
                    c['error'], e0[y0:y1, x0:x1]):
                return (f'source {i}: error cutout '
                        f'{None if c["error"] is None else c["error"].tolist()}'
                        f' != error[{y0}:{y1},{x0}:{x1}]')
        elif c['error'] is not None:
            return f'source {i}: error passed but not supplied'
        if use_peak:
            if c['xpeak'] != 2 - x0 or c['ypeak'] != 3 - y0:
                return (f'source {i}: xpeak,ypeak = {c["xpeak"]},'
                        f'{c["ypeak"]} expected {2 - x0},{3 - y0}')
        elif c['xpeak'] is not None or c['ypeak'] is not None:
            return f'source {i}: xpeak passed but not supplied'
        if not (np.isclose(xc[i], 0.25 * (i + 1) + x0)
                and np.isclose(yc[i], 0.5 + y0)):
            return f'source {i}: result not cutout result + offset'
    return None


def _run_sources(case):
    shape = case['shape']
    H, W = shape
    nsrc = case['nsrc']
    cnt = dict(n=0)
    samples = []

    def fn(ctx):
        fpname = case['fp']
        use_mask = ctx.flag('use_mask')
        use_err = ctx.flag('use_err')
        use_peak = ctx.flag('use_peak')
        qpos = []
        for i in range(nsrc):
            qx = ctx.int(f'qx{i}', *case['qx'])
            qy = ctx.int(f'qy{i}', *case['qy'])
            # no ties at .5 (rounding convention of the window is not part
            # of the property)
            ctx.assume(z3.And(qx.e % 4 != 2, qy.e % 4 != 2))
            qpos.append((qx.__index__(), qy.__index__()))
        ctx.stats.obligations += 1
        cnt['n'] += 1
        try:
            msg = _sources_check(shape, fpname, qpos, use_mask, use_err,
                                 use_peak)
        except ValueError as e:
            if 'completely masked' in str(e):
                ctx.stats.unsat += 1
                return
            msg = f'raised {e!r}'
        if msg is None:
            ctx.stats.unsat += 1
        else:
            ctx.stats.sat += 1
            site = msg.split(':')[1].split()[0] if ':' in msg else 'other'
            ctx.find(f'sources:{site}:{"err" if use_err else ""}'
                     f'{"peak" if use_peak else ""}', msg, ctx.witness(),
                     params=dict(kind='sources', shape=list(shape), fp=fpname,
                                 qpos=qpos, use_mask=use_mask,
                                 use_err=use_err, use_peak=use_peak))
        if len(samples) < 2:
            samples.append(dict(fp=fpname, qpos=qpos, mask=use_mask,
                                err=use_err, peak=use_peak))

    _, st, f = explore(fn)
    return dict(stats=st, findings=f, samples=samples, nontrivial=cnt['n'])


# ---- metamorphic relations for all four centroid functions (concrete) ------
META_FUNCS = ('centroid_com', 'centroid_quadratic', 'centroid_1dg',
              'centroid_2dg')


def _meta_scene(scene):
    # the frame is chosen so that a point-symmetric scene is point-symmetric
    # *within the frame* (centre of symmetry = centre of the frame)
    ny, nx = (14, 16) if scene == 'sym-half' else (15, 17)
    yy, xx = np.mgrid[:ny, :nx].astype(float)

    def g(x0, y0, sx, sy, th, a):
        c, s_ = np.cos(th), np.sin(th)
        u = (xx - x0) * c + (yy - y0) * s_
        v = -(xx - x0) * s_ + (yy - y0) * c
        return a * np.exp(-0.5 * ((u / sx) ** 2 + (v / sy) ** 2))
    if scene == 'sym-pixel':       # point-symmetric about a pixel centre
        return g(8, 7, 2.2, 1.4, 0.5, 50) + g(5, 5, 1, 1, 0, 6) + g(
            11, 9, 1, 1, 0, 6) + 1.0, (8.0, 7.0)
    if scene == 'sym-half':        # point-symmetric about a pixel corner
        return g(7.5, 6.5, 2.0, 2.6, -0.4, 40) + g(4.5, 4.5, 1, 1, 0, 5) + g(
            10.5, 8.5, 1, 1, 0, 5) + 0.5, (7.5, 6.5)
    # no symmetry at all
    return g(7.3, 6.1, 2.4, 1.5, 0.7, 45) + g(10.2, 8.3, 1.2, 1.2, 0, 9) \
        + 0.02 * xx + 0.5, None


def _meta_check(fname, scene, rel):
    import photutils.centroids as pc
    fn_ = getattr(pc, fname)
    img, centre = _meta_scene(scene)
    tol = 1e-9 if fname in ('centroid_com', 'centroid_quadratic') else 2e-5

    def run(a, mask=None):
        with warnings.catch_warnings():
            warnings.simplefilter('ignore')
            a0 = a.copy()
            m0 = None if mask is None else mask.copy()
            r = np.asarray(fn_(a, mask=mask), float)
            if not np.array_equal(a, a0, equal_nan=True) or (
                    mask is not None and not np.array_equal(mask, m0)):
                raise AssertionError('input modified')
            return r
    H, W = img.shape
    if fname == 'centroid_quadratic' and scene == 'sym-half':
        # four tied peak pixels: which one seeds the fit box is the
        # function's (documented: first maximum) choice, not a relation
        return None
    base = run(img)
    if not np.all(np.isfinite(base)):
        return f'{fname} returned {base} on a clean bright source'
    if rel == 'symmetry':
        if centre is None:
            return None
        if np.max(np.abs(base - centre)) > tol:
            return (f'{fname}: symmetry centre {centre} of a point-symmetric '
                    f'source, got {tuple(base)}')
    elif rel == 'flipx':
        r = run(img[:, ::-1].copy())
        if abs(r[0] - (W - 1 - base[0])) > tol or abs(r[1] - base[1]) > tol:
            return f'{fname}: flip x gives {tuple(r)}, expected ' \
                   f'{(W - 1 - base[0], base[1])}'
    elif rel == 'flipy':
        r = run(img[::-1, :].copy())
        if abs(r[1] - (H - 1 - base[1])) > tol or abs(r[0] - base[0]) > tol:
            return f'{fname}: flip y gives {tuple(r)}, expected ' \
                   f'{(base[0], H - 1 - base[1])}'
    elif rel == 'transpose':
        r = run(img.T.copy())
        if abs(r[0] - base[1]) > tol or abs(r[1] - base[0]) > tol:
            return f'{fname}: transposed image gives {tuple(r)}, expected ' \
                   f'{(base[1], base[0])}'
    elif rel in ('scale-big', 'scale-small'):
        k = 1e4 if rel == 'scale-big' else 1e-17
        r = run(img * k)
        if np.max(np.abs(r - base)) > tol:
            return f'{fname}: data * {k} gives {tuple(r)}, expected ' \
                   f'{tuple(base)}'
    elif rel == 'nonfinite':
        # NaN / +-inf pixels are excluded exactly like masked ones
        mask = np.zeros(img.shape, bool)
        mask[5, 9] = mask[2, 3] = mask[9, 10] = True
        d = img.copy()
        d[mask] = [np.nan, np.inf, -np.inf]
        ra, rb = run(d), run(img, mask)
        if not np.allclose(ra, rb, rtol=0, atol=tol, equal_nan=True):
            return f'{fname}: non-finite pixels {tuple(ra)} vs the same ' \
                   f'pixels masked {tuple(rb)}'
    elif rel == 'masked-values':
        mask = np.zeros(img.shape, bool)
        mask[2, 3] = mask[12, 13] = mask[6, 9] = True
        a = img.copy()
        b = img.copy()
        b[mask] = [1e6, -3e5, 7e4]
        ra, rb = run(a, mask), run(b, mask)
        if not np.allclose(ra, rb, rtol=0, atol=tol, equal_nan=True):
            return f'{fname}: values under the mask change the result: ' \
                   f'{tuple(ra)} vs {tuple(rb)}'
    return None


def _run_meta(case):
    cnt = dict(n=0)
    samples = []
    rels = ['symmetry', 'flipx', 'flipy', 'transpose', 'scale-big',
            'scale-small', 'masked-values', 'nonfinite']

    def fn(ctx):
        fname = ctx.choice('func', META_FUNCS)
        scene = ctx.choice('scene', ['sym-pixel', 'sym-half', 'asym'])
        rel = ctx.choice('rel', rels)
        ctx.stats.obligations += 1
        cnt['n'] += 1
        try:
            msg = _meta_check(fname, scene, rel)
            if case.get('twin') and rel == 'transpose' and msg is None:
                msg = 'twin: transposition deliberately mis-specified'
        except AssertionError as e:
            msg = f'{fname}: {e}'
        if msg is None:
            ctx.stats.unsat += 1
        else:
            ctx.stats.sat += 1
            ctx.find(f'meta:{fname}:{rel}', msg, ctx.witness(),
                     params=dict(kind='meta', func=fname, scene=scene,
                                 rel=rel, twin=bool(case.get('twin'))))
        if len(samples) < 2:
            samples.append(dict(func=fname, scene=scene, rel=rel))

    _, st, f = explore(fn)
    return dict(stats=st, findings=f, samples=samples, nontrivial=cnt['n'])


def run_case(case):
    return dict(com=_run_com, quad=_run_quad, quadT=_run_quadT,
                round=_run_round, sources=_run_sources,
                meta=_run_meta)[case['kind']](case)


def cases(tier, seed):
    cs = []
    for shape, mask in [((1, 1), 'all'), ((1, 3), 'all'), ((2, 2), 'all'),
                        ((2, 3), 'upto1'), ((3, 3), 'none')]:
        cs.append(dict(kind='com', name=f'com-{shape[0]}x{shape[1]}-{mask}',
                       shape=shape, mask=mask))
    cs.append(dict(kind='com', name='com-twin-shift', shape=(2, 2),
                   mask='none', twin='shift'))
    cs.append(dict(kind='com', name='com-twin-nomask', shape=(2, 2),
                   mask='upto1', twin='nomask'))
    cs.append(dict(kind='quad', name='quad-3x3-fit3', shape=(3, 3), fit=3))
    cs.append(dict(kind='quad', name='quad-3x4-fit3', shape=(3, 4), fit=3))
    for shape, fit, vtx in [((5, 5), 5, ('2.25', '1.75')),
                            ((5, 5), (3, 5), ('1.5', '2.5')),
                            ((5, 6), 3, ('3.125', '2')),
                            ((4, 4), 3, ('1.5', '1.25'))]:
        cs.append(dict(kind='quad', name=f'quad-vertex-{shape[0]}x{shape[1]}'
                       f'-fit{fit}-v{vtx[0]},{vtx[1]}', shape=shape, fit=fit,
                       vertex=vtx))
    cs.append(dict(kind='quad', name='quad-twin', shape=(3, 3), fit=3,
                   twin='vertex'))
    for shape, fit in [((3, 4), 3), ((4, 5), (3, 5)), ((5, 4), (3, 5))]:
        cs.append(dict(kind='quadT', name=f'quadT-{shape[0]}x{shape[1]}-fit'
                       f'{fit}', shape=shape, fit=fit))
    cs.append(dict(kind='round', name='py2intround'))
    cs.append(dict(kind='meta', name='metamorphic-all-centroid-functions'))
    cs.append(dict(kind='meta', name='metamorphic-twin', twin=True))
    for fp in FOOTPRINTS:
        cs.append(dict(kind='sources', name=f'sources-1-{fp}', shape=(5, 6),
                       nsrc=1, fp=fp, qx=(0, 20), qy=(0, 16)))
        cs.append(dict(kind='sources', name=f'sources-2-{fp}', shape=(5, 6),
                       nsrc=2, fp=fp, qx=(3, 15), qy=(4, 5)))
    if tier == 'thorough':
        for shape, mask in [((3, 4), 'upto2'), ((4, 4), 'upto1'),
                            ((3, 3), 'all'), ((2, 3), 'all')]:
            cs.append(dict(kind='com', name=f'com-{shape[0]}x{shape[1]}-'
                           f'{mask}', shape=shape, mask=mask))
        for shape, fit in [((4, 5), 3), ((5, 5), 5), ((5, 5), (3, 5)),
                           ((4, 4), 3)]:
            cs.append(dict(kind='quad', name=f'quad-{shape[0]}x{shape[1]}-'
                           f'fit{fit}', shape=shape, fit=fit))
        for shape, fit, vtx in [((5, 6), 5, ('3.5', '2.0')),
                                ((6, 5), (3, 5), ('1.25', '3.75')),
                                ((6, 6), (5, 3), ('2.5', '2.5')),
                                ((7, 7), 5, ('4.0625', '2.9375')),
                                ((5, 5), 3, ('1', '3')),
                                ((6, 6), 5, ('1.1', '4.2'))]:
            cs.append(dict(kind='quad', name=f'quad-vertex-{shape[0]}x'
                           f'{shape[1]}-fit{fit}-v{vtx[0]},{vtx[1]}',
                           shape=shape, fit=fit, vertex=vtx))
        cs.append(dict(kind='quad', name='quad-4x4-fit3-masked',
                       shape=(4, 4), fit=3, maskpix=True))
        for shape, fit in [((4, 4), 3), ((5, 6), (3, 5)), ((6, 5), (5, 3)),
                           ((5, 5), (3, 5))]:
            cs.append(dict(kind='quadT', name=f'quadT-{shape[0]}x{shape[1]}'
                           f'-fit{fit}', shape=shape, fit=fit))
        for fp in FOOTPRINTS:
            cs.append(dict(kind='sources', name=f'sources-2full-{fp}',
                           shape=(6, 5), nsrc=2, fp=fp, qx=(0, 16),
                           qy=(0, 20)))
            cs.append(dict(kind='sources', name=f'sources-3-{fp}',
                           shape=(5, 6), nsrc=3, fp=fp, qx=(3, 13),
                           qy=(8, 9)))
    return cs


def replay(f):
    import photutils.centroids.core as cc
    p = f['params']
    w = f['witness']
    if p['kind'] == 'meta':
        if p.get('twin'):
            return False, 'twin'
        try:
            msg = _meta_check(p['func'], p['scene'], p['rel'])
        except AssertionError as e:
            msg = str(e)
        return msg is not None, str(msg)
    if p['kind'] == 'sources':
        try:
            msg = _sources_check(tuple(p['shape']), p['fp'],
                                 [tuple(q) for q in p['qpos']], p['use_mask'],
                                 p['use_err'], p['use_peak'])
        except ValueError as e:
            msg = f'raised {e!r}'
        return msg is not None, str(msg)
    if p['kind'] == 'com':
        H, W = p['shape']
        d = arr_from_witness(w, 'd', (H, W))
        mask = None if p['mask'] == 'none' else mask_from_witness(
            w, 'm', (H, W))
        d0 = d.copy()
        m0 = None if mask is None else mask.copy()
        with warnings.catch_warnings():
            warnings.simplefilter('ignore')
            x, y = cc.centroid_com(d, mask=mask)
        if 'input-modified' in f['key']:
            bad = not np.array_equal(d, d0, equal_nan=True) or (
                mask is not None and not np.array_equal(mask, m0))
            return bad, f'data/mask modified: {bad}'
        g = np.isfinite(d) & (~mask if mask is not None else True)
        v = np.where(g, d, 0.0)
        T = v.sum()
        yy, xx = np.mgrid[:H, :W]
        if T == 0:
            bad = not (np.isnan(x) and np.isnan(y))
            exp = (np.nan, np.nan)
        else:
            exp = ((xx * v).sum() / T, (yy * v).sum() / T)
            bad = not np.allclose([x, y], exp, rtol=1e-9, atol=1e-12)
        return bad, f'data={d.tolist()} mask=' \
            f'{None if mask is None else mask.tolist()} got {(x, y)} ' \
            f'expected {exp}'
    if p['kind'] in ('quad',):
        H, W = p['shape']
        if p.get('vertex'):
            vx, vy = (float(Fraction(v)) for v in p['vertex'])
            k0, qa, qb, qc = (float(w[n]) for n in ('k0', 'qa', 'qb', 'qc'))
            c = [k0 + qa * vx * vx + qb * vx * vy + qc * vy * vy,
                 -2 * qa * vx - qb * vy, -qb * vx - 2 * qc * vy, qb, qa, qc]
        else:
            c = [float(w[f'c{i}']) for i in range(6)]
        yy, xx = np.mgrid[:H, :W]
        d = (c[0] + c[1] * xx + c[2] * yy + c[3] * xx * yy + c[4] * xx * xx
             + c[5] * yy * yy).astype(float)
        fit = p['fit'][0] if len(p['fit']) == 1 else tuple(p['fit'])
        mask = None
        if p.get('masked'):
            mask = np.zeros((H, W), bool)
            mask.flat[int(w['mk'])] = True
        with warnings.catch_warnings():
            warnings.simplefilter('ignore')
            x, y = cc.centroid_quadratic(d, fit_boxsize=fit, mask=mask)
        det = 4 * c[4] * c[5] - c[3] ** 2
        if np.isnan(x):
            concave = c[4] < 0 and c[5] < 0 and det > 0
            if not concave:
                return False, 'NaN for non-peak'
            vx = (c[2] * c[3] - 2 * c[5] * c[1]) / det
            vy = (c[1] * c[3] - 2 * c[4] * c[2]) / det
            bad = 1 < vx < W - 2 and 1 < vy < H - 2 and \
                f['key'] == 'quad:nan-for-peak'
            return bad, f'coeffs={c} NaN, vertex=({vx},{vy})'
        if x in (0, W - 1) or y in (0, H - 1):
            return False, 'edge pixel'
        g1 = 2 * c[4] * x + c[3] * y + c[1]
        g2 = c[3] * x + 2 * c[5] * y + c[2]
        sc = max(1.0, max(abs(v) for v in c))
        bad = abs(g1) > 1e-7 * sc or abs(g2) > 1e-7 * sc
        return bad, f'coeffs={c} got ({x},{y}) gradient=({g1},{g2})'
    if p['kind'] == 'quadT':
        H, W = p['shape']
        d = arr_from_witness(w, 'd', (H, W))
        fit = p['fit'][0] if len(p['fit']) == 1 else tuple(p['fit'])
        fitT = fit if np.isscalar(fit) else (fit[1], fit[0])
        rec = []
        orig = np.linalg.lstsq

        def recorder(A, b, rcond=None):
            rec.append(np.asarray(A)[:, 1:3].copy())
            return orig(A, b, rcond=rcond)
        np.linalg.lstsq = recorder
        try:
            with warnings.catch_warnings():
                warnings.simplefilter('ignore')
                r1 = cc.centroid_quadratic(d, fit_boxsize=fit)
                n1 = len(rec)
                r2 = cc.centroid_quadratic(d.T.copy(), fit_boxsize=fitT)
        finally:
            np.linalg.lstsq = orig
        s1 = [sorted(map(tuple, a.tolist())) for a in rec[:n1]]
        s2 = [sorted((int(y), int(x)) for x, y in a.tolist())
              for a in rec[n1:]]
        bad = s1 != s2 or not np.allclose(r1, r2[::-1], rtol=1e-7, atol=1e-9,
                                          equal_nan=True)
        return bad, (f'data={d.tolist()} -> {r1} fit pixels {s1}; '
                     f'transposed -> {r2} fit pixels (mapped back) {s2}')
    if p['kind'] == 'round':
        from photutils.utils._round import py2intround
        x = float(w['x'])
        v = py2intround(x)
        exp = int(np.floor(abs(x) + 0.5)) * (1 if x >= 0 else -1)
        return v != exp, f'py2intround({x})={v} expected {exp}'
    return False, 'unknown kind'
