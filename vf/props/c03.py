"""C03 - covariance under integer translation and axis transposition.

Metamorphic harnesses.  SYM part: the real functions run on a symbolic image
A and on A embedded at a solver-chosen integer offset in a zero canvas (resp.
on A transposed); the two symbolic results must be solver-equal up to the
shift (resp. the x<->y swap).  Concrete part (convolution, watershed, fits):
solver-enumerated offsets / pads on generated asymmetric scenes.
"""
import warnings

import numpy as np
import z3

from ..sym import (Stats, SymArray, SymBool, SymReal, const, explore, nanflag,
                   same, symarray, term)

META = dict(
    functions=['photutils.segmentation.detect:detect_sources',
               'photutils.detection.peakfinder:find_peaks',
               'photutils.centroids.core:centroid_com',
               'photutils.utils._moments:_moments',
               'photutils.utils._moments:_moments_central',
               'photutils.aperture.core:PixelAperture.do_photometry',
               'photutils.aperture.stats:ApertureStats.centroid',
               'photutils.segmentation.catalog:SourceCatalog.centroid',
               'photutils.segmentation.catalog:SourceCatalog.centroid_quad',
               'photutils.segmentation.catalog:SourceCatalog.bbox_xmin',
               'photutils.profiles.radial_profile:RadialProfile._data_profile',
               'photutils.profiles.core:ProfileBase._photometry',
               'photutils.detection.daofinder:DAOStarFinder.find_stars',
               'photutils.detection.irafstarfinder:IRAFStarFinder.find_stars',
               'photutils.detection.starfinder:StarFinder.find_stars',
               'photutils.segmentation.deblend:deblend_sources',
               'photutils.datasets.images:make_model_image'],
    bounds=('symbolic part: positive symbolic images 2x3 / 3x3 embedded at '
            'every offset (dx,dy) in [0,2]^2 of a 5x5 / 4x6 zero canvas, '
            'threshold >= 0; transposition of 2x3 / 3x3 symbolic images; '
            'concrete part: an asymmetric 4-source scene (one 4-pixel source '
            'whose quadratic fit fails) on 36x48 embedded at offsets in '
            '{0,3,8}x{0,5,11} with pads in {0,7}, and its transpose'),
    assumptions=['embedded images are positive and the canvas is zero '
                 '(threshold >= 0), so padding never creates or suppresses a '
                 'detection', 'floats as reals in the symbolic part; concrete '
                 'part compared with rtol 1e-9 (positions 1e-9 absolute)'],
    stubs=['scipy maximum_filter definition stub (as in C14)',
           'numpy facade'],
    outside=['sources whose measurement footprint leaves the original frame',
             'non-integer translations'],
    min_obligations=40,
)


def _install():
    from .. import facade
    facade.install()
    from . import c14
    c14._install()


def _embed(A, canvas_shape, dy, dx, fill=0.0):
    C = np.empty(canvas_shape, dtype=object)
    C[:] = fill
    H, W = A.shape
    C[dy:dy + H, dx:dx + W] = A
    return C.view(SymArray)


def _run_sym_shift(case):
    _install()
    from photutils.aperture import ApertureStats, CircularAperture
    from photutils.centroids import centroid_com
    from photutils.detection import find_peaks
    from photutils.segmentation import (SegmentationImage, SourceCatalog,
                                        detect_sources)
    H, W = case['shape']
    CH, CW = case['canvas']
    what = case['what']
    twin = case.get('twin')
    cnt = dict(n=0)
    samples = []

    def fn(ctx):
        A = symarray(ctx, 'a', (H, W))
        for e in A.flat:
            ctx.assume(e.e > 0)
        dy = ctx.choice('dy', list(range(0, CH - H + 1)))
        dx = ctx.choice('dx', list(range(0, CW - W + 1)))
        C = _embed(A, (CH, CW), dy, dx)
        params = dict(kind='shift', what=what, shape=[H, W],
                      canvas=[CH, CW])
        conds = []
        with warnings.catch_warnings():
            warnings.simplefilter('ignore')
            if what == 'detect':
                t = ctx.real('t')
                ctx.assume(t.e >= 0)
                conn = ctx.choice('conn', [4, 8])
                npix = ctx.choice('npix', [1, 2])
                s1 = detect_sources(A, t, npix, connectivity=conn)
                s2 = detect_sources(C, t, npix, connectivity=conn)
                if (s1 is None) != (s2 is None):
                    conds.append(z3.BoolVal(False))
                elif s1 is not None:
                    exp = np.zeros((CH, CW), int)
                    exp[dy:dy + H, dx:dx + W] = s1.data
                    ok = np.array_equal(exp, s2.data) and \
                        [b.ixmin - dx for b in s2.bbox] == [
                            b.ixmin for b in s1.bbox] and \
                        [b.iymax - dy for b in s2.bbox] == [
                            b.iymax for b in s1.bbox] and \
                        list(s1.areas) == list(s2.areas)
                    conds.append(z3.BoolVal(bool(ok)))
            elif what == 'peaks':
                t = ctx.real('t')
                ctx.assume(t.e >= 0)
                # non-constant
                ctx.assume(A[0, 0].e != A[0, 1].e)
                p1 = find_peaks(A, t, box_size=3)
                p2 = find_peaks(C, t, box_size=3)
                if (p1 is None) != (p2 is None):
                    conds.append(z3.BoolVal(False))
                elif p1 is not None:
                    a = sorted(zip(p1['y_peak'], p1['x_peak']))
                    b = sorted((y - dy, x - dx) for y, x in
                               zip(p2['y_peak'], p2['x_peak']))
                    conds.append(z3.BoolVal(
                        [tuple(map(int, q)) for q in a]
                        == [tuple(map(int, q)) for q in b]))
            elif what == 'com':
                c1 = centroid_com(A)
                c2 = centroid_com(C)
                off = (dx + (1 if twin else 0), dy)
                conds += [same(c2[0], c1[0] + off[0]),
                          same(c2[1], c1[1] + off[1])]
            elif what == 'aperture':
                E = symarray(ctx, 'e', (H, W))
                CE = _embed(E, (CH, CW), dy, dx)
                ap1 = CircularAperture((0.9, 1.1), 0.85)
                ap2 = CircularAperture((0.9 + dx, 1.1 + dy), 0.85)
                s1, e1 = ap1.do_photometry(A, error=E)
                s2, e2 = ap2.do_photometry(C, error=CE)
                conds += [same(s1[0], s2[0]),
                          same(e1[0] * e1[0], e2[0] * e2[0])]
                st1 = ApertureStats(A, ap1)
                st2 = ApertureStats(C, ap2)
                conds += [same(st2.xcentroid, st1.xcentroid + dx),
                          same(st2.ycentroid, st1.ycentroid + dy),
                          same(st1.sum, st2.sum),
                          z3.BoolVal(int(st2.bbox_xmin) - dx
                                     == int(st1.bbox_xmin)
                                     and int(st2.bbox_ymax) - dy
                                     == int(st1.bbox_ymax))]
            elif what == 'catalog':
                seg = case['segm']
                segC = np.zeros((CH, CW), int)
                segC[dy:dy + H, dx:dx + W] = seg
                c1 = SourceCatalog(A, SegmentationImage(seg.copy()),
                                   progress_bar=False)
                c2 = SourceCatalog(C, SegmentationImage(segC),
                                   progress_bar=False)
                n = c1.nlabels
                for k in range(n):
                    conds += [same(np.atleast_1d(c2.xcentroid)[k],
                                   np.atleast_1d(c1.xcentroid)[k] + dx),
                              same(np.atleast_1d(c2.ycentroid)[k],
                                   np.atleast_1d(c1.ycentroid)[k] + dy),
                              same(np.atleast_1d(c1.segment_flux)[k],
                                   np.atleast_1d(c2.segment_flux)[k]),
                              same(np.atleast_1d(c1.max_value)[k],
                                   np.atleast_1d(c2.max_value)[k])]
                ok = (list(np.atleast_1d(c2.bbox_xmin) - dx)
                      == list(np.atleast_1d(c1.bbox_xmin))
                      and list(np.atleast_1d(c2.bbox_ymax) - dy)
                      == list(np.atleast_1d(c1.bbox_ymax))
                      and list(np.atleast_1d(c2.maxval_xindex) - dx)
                      == list(np.atleast_1d(c1.maxval_xindex))
                      and list(np.atleast_1d(c2.maxval_yindex) - dy)
                      == list(np.atleast_1d(c1.maxval_yindex)))
                conds.append(z3.BoolVal(bool(ok)))
        cnt['n'] += 1
        r, m = ctx.holds(z3.And(conds), what)
        if r == 'sat':
            ctx.find(f'shift:{what}', f'{what}: results on the embedded '
                     f'image are not the shifted results', ctx.witness(m),
                     params=params)
        if len(samples) < 1:
            samples.append(dict(what=what, offset=[dx, dy]))

    _, st, f = explore(fn)
    return dict(stats=st, findings=f, samples=samples, nontrivial=cnt['n'])


def _run_sym_transpose(case):
    _install()
    from photutils.aperture import CircularAperture, EllipticalAperture
    from photutils.centroids import centroid_com
    from photutils.segmentation import SegmentationImage, SourceCatalog
    from photutils.utils._moments import _moments
    H, W = case['shape']
    what = case['what']
    cnt = dict(n=0)

    def fn(ctx):
        A = symarray(ctx, 'a', (H, W))
        for e in A.flat:
            ctx.assume(e.e > 0)
        AT = A.T.copy().view(SymArray)
        conds = []
        with warnings.catch_warnings():
            warnings.simplefilter('ignore')
            if what == 'com':
                c1, c2 = centroid_com(A), centroid_com(AT)
                conds += [same(c1[0], c2[1]), same(c1[1], c2[0])]
            elif what == 'moments':
                m1, m2 = _moments(A, order=2), _moments(AT, order=2)
                for i in range(3):
                    for j in range(3):
                        conds.append(same(m1[i, j], m2[j, i]))
            elif what == 'aperture':
                E = symarray(ctx, 'e', (H, W))
                ET = E.T.copy().view(SymArray)
                from photutils.aperture import (RectangularAnnulus,
                                                RectangularAperture)
                # shapes at rotation angles in every quadrant
                specs = [(EllipticalAperture, (1.2, 0.6), 0.4),
                         (EllipticalAperture, (1.3, 0.5), 2.2),
                         (RectangularAperture, (2.2, 1.0), 0.4),
                         (RectangularAperture, (2.2, 1.0), 2.1),
                         (RectangularAperture, (1.8, 1.1), -0.5),
                         (RectangularAnnulus, (0.9, 2.4, 1.3), 2.6)]
                for cls, args, th in specs:
                    a1 = cls((0.8, 1.3), *args, theta=th)
                    a2 = cls((1.3, 0.8), *args, theta=np.pi / 2 - th)
                    for method in ('center', 'exact'):
                        m1 = a1.to_mask(method).to_image((H, W))
                        m2 = a2.to_mask(method).to_image((W, H))
                        ok = m1 is not None and m2 is not None and \
                            np.allclose(m1, m2.T, rtol=0, atol=1e-12)
                        conds.append(z3.BoolVal(bool(ok)))
                    s1, e1 = a1.do_photometry(A, error=E, method='center')
                    s2, e2 = a2.do_photometry(AT, error=ET, method='center')
                    conds += [same(s1[0], s2[0]),
                              same(e1[0] * e1[0], e2[0] * e2[0])]
            else:
                seg = case['segm']
                c1 = SourceCatalog(A, SegmentationImage(seg.copy()),
                                   progress_bar=False)
                c2 = SourceCatalog(AT, SegmentationImage(seg.T.copy()),
                                   progress_bar=False)
                # rows may be ordered differently: match by flux terms
                n = c1.nlabels
                for k in range(n):
                    lab = int(np.atleast_1d(c1.labels)[k])
                    j = list(np.atleast_1d(c2.labels)).index(lab)
                    conds += [same(np.atleast_1d(c1.xcentroid)[k],
                                   np.atleast_1d(c2.ycentroid)[j]),
                              same(np.atleast_1d(c1.ycentroid)[k],
                                   np.atleast_1d(c2.xcentroid)[j]),
                              same(np.atleast_1d(c1.segment_flux)[k],
                                   np.atleast_1d(c2.segment_flux)[j]),
                              z3.BoolVal(int(np.atleast_1d(c1.bbox_xmin)[k])
                                         == int(np.atleast_1d(
                                             c2.bbox_ymin)[j])
                                         and int(np.atleast_1d(
                                             c1.bbox_ymax)[k]) == int(
                                             np.atleast_1d(c2.bbox_xmax)[j]))]
        cnt['n'] += 1
        r, m = ctx.holds(z3.And(conds), what)
        if r == 'sat':
            ctx.find(f'transpose:{what}', f'{what}: transposing the input '
                     f'does not swap the x and y quantities', ctx.witness(m),
                     params=dict(kind='transpose', what=what,
                                 shape=[H, W]))

    _, st, f = explore(fn)
    return dict(stats=st, findings=f, samples=[dict(what=what)],
                nontrivial=cnt['n'])


# ---------------------------------------------------------------- concrete
_sc = {}


def _scene():
    from astropy.modeling.models import Gaussian2D
    if 'img' in _sc:
        return _sc['img']
    yy, xx = np.mgrid[:36, :48]
    img = np.zeros((36, 48))
    for (a, x, y, sx, sy, t) in [(60, 10.3, 9.2, 2.1, 1.3, 0.5),
                                 (90, 33.1, 11.4, 1.4, 1.9, 1.1),
                                 (50, 14.2, 26.0, 1.7, 1.7, 0.0),
                                 (70, 38.4, 27.3, 2.4, 1.2, 2.3)]:
        img += Gaussian2D(a, x, y, sx, sy, theta=t)(xx, yy)
    img[18:20, 24:26] = 9.0          # 4-pixel source (quadratic fit fails)
    img[img < 1e-3] = 0.0
    _sc['img'] = img
    return img


def _place(img, dx, dy, pad):
    H, W = img.shape
    C = np.zeros((H + dy + pad, W + dx + pad))
    C[dy:dy + H, dx:dx + W] = img
    return C


def _tables_close(t1, t2, shift_cols, dx, dy, skip=()):
    if (t1 is None) != (t2 is None):
        return 'None-ness differs'
    if t1 is None:
        return None
    if len(t1) != len(t2):
        return f'{len(t2)} rows vs {len(t1)}'
    for c in t1.colnames:
        if c in skip:
            continue
        a = np.asarray(getattr(t1[c], 'value', t1[c]), float)
        b = np.asarray(getattr(t2[c], 'value', t2[c]), float)
        off = dx if c in shift_cols[0] else (dy if c in shift_cols[1] else 0)
        if not np.allclose(a + off, b, rtol=1e-9, atol=1e-9,
                           equal_nan=True):
            i = int(np.nanargmax(np.abs(a + off - b)))
            return (f'column {c}: {b[i]} on the embedded image vs {a[i]} '
                    f'(+{off})')
    return None


def _conc_check(what, dx, dy, pad):
    from astropy.table import QTable
    from photutils.aperture import (ApertureStats, CircularAperture,
                                    aperture_photometry)
    from photutils.datasets import make_model_image
    from photutils.detection import (DAOStarFinder, IRAFStarFinder,
                                     StarFinder)
    from photutils.profiles import CurveOfGrowth, RadialProfile
    from photutils.psf import CircularGaussianPRF
    from photutils.segmentation import (SourceCatalog, deblend_sources,
                                        detect_sources)
    img = _scene()
    C = _place(img, dx, dy, pad)
    with warnings.catch_warnings():
        warnings.simplefilter('ignore')
        if what in ('dao', 'iraf', 'star'):
            if what == 'dao':
                F = DAOStarFinder(5.0, 3.0)
            elif what == 'iraf':
                F = IRAFStarFinder(5.0, 3.0)
            else:
                yy, xx = np.mgrid[-3:4, -3:4]
                F = StarFinder(5.0, np.exp(-(xx ** 2 + yy ** 2) / 4.0))
            msg = _tables_close(F(img), F(C), (('xcentroid',),
                                               ('ycentroid',)), dx, dy)
            if msg is not None or what == 'star':
                return msg
            # supplied positions (incl. exact half-integers) replace the peak
            # finding: they shift with the image as well
            xy = np.array([(10.5, 9.0), (33.0, 11.5), (14.5, 26.5),
                           (38.2, 27.4)])
            kw = dict(xycoords=xy)
            kw2 = dict(xycoords=xy + np.array([dx, dy]))
            F1 = (DAOStarFinder if what == 'dao' else IRAFStarFinder)(
                5.0, 3.0, **kw)
            F2 = (DAOStarFinder if what == 'dao' else IRAFStarFinder)(
                5.0, 3.0, **kw2)
            msg = _tables_close(F1(img), F2(C), (('xcentroid',),
                                                 ('ycentroid',)), dx, dy)
            return None if msg is None else 'with xycoords: ' + msg
        if what == 'catalog':
            s1 = detect_sources(img, 2.0, 4)
            s2 = detect_sources(C, 2.0, 4)
            exp = np.zeros(C.shape, int)
            exp[dy:dy + img.shape[0], dx:dx + img.shape[1]] = s1.data
            if not np.array_equal(exp, s2.data):
                return 'segmentation of the embedded image is not the ' \
                       'embedded segmentation'
            d1 = deblend_sources(img, s1, 4, progress_bar=False)
            d2 = deblend_sources(C, s2, 4, progress_bar=False)
            exp = np.zeros(C.shape, int)
            exp[dy:dy + img.shape[0], dx:dx + img.shape[1]] = d1.data
            if not np.array_equal(exp, d2.data):
                return 'deblending does not commute with embedding'
            cols = ['label', 'xcentroid', 'ycentroid', 'xcentroid_quad',
                    'ycentroid_quad', 'xcentroid_win', 'ycentroid_win',
                    'bbox_xmin', 'bbox_xmax', 'bbox_ymin', 'bbox_ymax',
                    'maxval_xindex', 'maxval_yindex', 'minval_xindex',
                    'minval_yindex', 'area', 'segment_flux', 'kron_flux',
                    'kron_radius', 'semimajor_sigma', 'semiminor_sigma',
                    'orientation', 'eccentricity', 'fwhm', 'max_value',
                    'perimeter', 'gini']
            t1 = SourceCatalog(img, d1, progress_bar=False).to_table(cols)
            t2 = SourceCatalog(C, d2, progress_bar=False).to_table(cols)
            xs = tuple(c for c in cols if c.startswith(('xcentroid',
                                                        'bbox_x',
                                                        'maxval_x',
                                                        'minval_x')))
            ys = tuple(c for c in cols if c.startswith(('ycentroid',
                                                        'bbox_y',
                                                        'maxval_y',
                                                        'minval_y')))
            return _tables_close(t1, t2, (xs, ys), dx, dy)
        if what == 'aperture':
            pos = [(10.3, 9.2), (33.1, 11.4), (38.4, 27.3)]
            a1 = CircularAperture(pos, 4.0)
            a2 = CircularAperture([(x + dx, y + dy) for x, y in pos], 4.0)
            t1 = aperture_photometry(img, a1)
            t2 = aperture_photometry(C, a2)
            msg = _tables_close(t1, t2, (('xcenter',), ('ycenter',)), dx, dy)
            if msg:
                return msg
            s1, s2 = ApertureStats(img, a1), ApertureStats(C, a2)
            for p in ('sum', 'mean', 'max', 'semimajor_sigma', 'orientation',
                      'fwhm'):
                if not np.allclose(np.asarray(getattr(s1, p), float),
                                   np.asarray(getattr(s2, p), float),
                                   rtol=1e-9, equal_nan=True):
                    return f'ApertureStats.{p} changes under translation'
            if not np.allclose(np.asarray(s1.xcentroid) + dx,
                               np.asarray(s2.xcentroid), atol=1e-9) or not \
                    np.allclose(np.asarray(s1.ycentroid) + dy,
                                np.asarray(s2.ycentroid), atol=1e-9):
                return 'ApertureStats centroid does not shift'
            return None
        if what == 'profile':
            rad = np.array([0, 1, 2, 3.5, 5.0])
            # (the last three circles reach into the outer half-pixel band of
            # the left / bottom edge: still inside the original frame)
            for (x, y) in [(10.3, 9.2), (38.4, 27.3), (33.1, 11.4),
                           (4.7, 12.3), (15.2, 4.6), (4.8, 4.7)]:
                r1 = RadialProfile(img, (x, y), rad)
                r2 = RadialProfile(C, (x + dx, y + dy), rad)
                if not np.allclose(r1.profile, r2.profile, rtol=1e-9):
                    return f'RadialProfile.profile at ({x},{y}) changes'
                o1 = np.argsort(r1.data_radius, kind='stable')
                o2 = np.argsort(r2.data_radius, kind='stable')
                if len(r1.data_radius) != len(r2.data_radius) or not \
                        np.allclose(np.sort(r1.data_radius),
                                    np.sort(r2.data_radius), atol=1e-9) or \
                        not np.isclose(np.sum(r1.data_profile),
                                       np.sum(r2.data_profile), rtol=1e-9):
                    return (f'RadialProfile.data_profile at ({x},{y}): '
                            f'{len(r2.data_radius)} points on the embedded '
                            f'image vs {len(r1.data_radius)}')
                c1 = CurveOfGrowth(img, (x, y), rad[1:])
                c2 = CurveOfGrowth(C, (x + dx, y + dy), rad[1:])
                if not np.allclose(c1.profile, c2.profile, rtol=1e-9):
                    return 'CurveOfGrowth changes under translation'
            return None
        if what == 'model':
            m = CircularGaussianPRF(fwhm=2.5)
            # (all 9x9 windows lie inside the original frame)
            t1 = QTable(dict(x_0=[5.2, 20.0, 30.7], y_0=[6.1, 14.5, 25.0],
                             flux=[10., 20., 30.]))
            t2 = QTable(dict(x_0=np.array(t1['x_0']) + dx,
                             y_0=np.array(t1['y_0']) + dy, flux=t1['flux']))
            i1 = make_model_image(img.shape, m, t1, model_shape=(9, 9))
            i2 = make_model_image(C.shape, m, t2, model_shape=(9, 9))
            if not np.allclose(_place(i1, dx, dy, pad), i2, rtol=0,
                               atol=1e-12):
                return 'rendered image does not shift with the sources'
            return None
    raise ValueError(what)


def _conc_transpose(what):
    from photutils.profiles import RadialProfile
    from photutils.segmentation import SourceCatalog, detect_sources
    img = _scene()
    T = img.T.copy()
    with warnings.catch_warnings():
        warnings.simplefilter('ignore')
        if what == 'catalog':
            s1 = detect_sources(img, 2.0, 4)
            from photutils.segmentation import SegmentationImage
            s2 = SegmentationImage(s1.data.T.copy())
            c1 = SourceCatalog(img, s1, progress_bar=False)
            c2 = SourceCatalog(T, s2, progress_bar=False)
            for a, b in (('xcentroid', 'ycentroid'), ('ycentroid',
                                                      'xcentroid'),
                         ('bbox_xmin', 'bbox_ymin'), ('bbox_ymax',
                                                      'bbox_xmax'),
                         ('segment_flux', 'segment_flux'),
                         ('semimajor_sigma', 'semimajor_sigma'),
                         ('eccentricity', 'eccentricity'),
                         ('kron_flux', 'kron_flux'),
                         ('xcentroid_quad', 'ycentroid_quad')):
                if not np.allclose(np.asarray(getattr(c1, a), float),
                                   np.asarray(getattr(c2, b), float),
                                   rtol=1e-8, atol=1e-8, equal_nan=True):
                    return f'{a} of the image != {b} of the transposed image'
            o1 = np.asarray(c1.orientation.to('deg').value)
            o2 = np.asarray(c2.orientation.to('deg').value)
            # the orientation of a round source is undefined
            rnd = np.asarray(c1.eccentricity) < 1e-6
            o1, o2 = o1[~rnd], o2[~rnd]
            d = ((o1 + o2 - 90.0) + 90) % 180 - 90
            if np.nanmax(np.abs(d)) > 1e-6:
                return f'orientation {o1} vs transposed {o2}: not 90 - theta'
            return None
        rad = np.array([0, 1, 2, 3.5, 5.0])
        for (x, y) in [(10.3, 9.2), (38.4, 27.3)]:
            r1 = RadialProfile(img, (x, y), rad)
            r2 = RadialProfile(T, (y, x), rad)
            if not np.allclose(r1.profile, r2.profile, rtol=1e-9):
                return 'RadialProfile.profile changes under transposition'
            if len(r1.data_radius) != len(r2.data_radius) or not np.isclose(
                    np.sum(r1.data_profile), np.sum(r2.data_profile)):
                return ('RadialProfile.data_profile changes under '
                        'transposition')
    return None


def _run_conc(case):
    cnt = dict(n=0)
    samples = []

    def fn(ctx):
        what = case['what']
        if case.get('transpose'):
            ctx.stats.obligations += 1
            cnt['n'] += 1
            msg = _conc_transpose(what)
            pr = dict(kind='conctr', what=what)
        else:
            dx = ctx.choice('dx', [0, 3, 8])
            dy = ctx.choice('dy', [0, 5, 11])
            pad = ctx.choice('pad', [0, 7])
            ctx.stats.obligations += 1
            cnt['n'] += 1
            try:
                msg = _conc_check(what, dx, dy, pad)
            except Exception as e:  # noqa
                msg = f'raised {e!r}'
            pr = dict(kind='conc', what=what, dx=dx, dy=dy, pad=pad)
        if msg is None:
            ctx.stats.unsat += 1
        else:
            ctx.stats.sat += 1
            ctx.find(f'concrete:{what}:{"T" if case.get("transpose") else "shift"}',
                     f'{pr}: {msg}', ctx.witness(), params=pr)
        if len(samples) < 2:
            samples.append(pr)

    _, st, f = explore(fn)
    return dict(stats=st, findings=f, samples=samples, nontrivial=cnt['n'])


def run_case(case):
    return dict(shift=_run_sym_shift, transpose=_run_sym_transpose,
                conc=_run_conc)[case['kind']](case)


SEG23 = np.array([[1, 1, 0], [0, 2, 2]])
SEG33 = np.array([[1, 1, 0], [0, 0, 3], [2, 0, 3]])


def cases(tier, seed):
    cs = []
    for what in ('detect', 'com', 'aperture'):
        cs.append(dict(kind='shift', name=f'shift-{what}-2x3', what=what,
                       shape=(2, 3), canvas=(4, 5)))
    cs.append(dict(kind='shift', name='shift-peaks-2x2', what='peaks',
                   shape=(2, 2), canvas=(3, 4)))
    cs.append(dict(kind='shift', name='shift-catalog-2x3', what='catalog',
                   shape=(2, 3), canvas=(4, 5), segm=SEG23))
    cs.append(dict(kind='shift', name='shift-com-twin', what='com',
                   shape=(2, 2), canvas=(3, 3), twin=True))
    for what in ('com', 'moments', 'aperture'):
        cs.append(dict(kind='transpose', name=f'transpose-{what}-2x3',
                       what=what, shape=(2, 3)))
    cs.append(dict(kind='transpose', name='transpose-catalog-2x3',
                   what='catalog', shape=(2, 3), segm=SEG23))
    for what in ('dao', 'iraf', 'star', 'catalog', 'aperture', 'profile',
                 'model'):
        cs.append(dict(kind='conc', name=f'concrete-shift-{what}',
                       what=what))
    for what in ('catalog', 'profile'):
        cs.append(dict(kind='conc', name=f'concrete-transpose-{what}',
                       what=what, transpose=True))
    if tier == 'thorough':
        cs.append(dict(kind='shift', name='shift-peaks-2x3', what='peaks',
                       shape=(2, 3), canvas=(4, 5)))
        for what in ('detect', 'com', 'aperture'):
            cs.append(dict(kind='shift', name=f'shift-{what}-3x3',
                           what=what, shape=(3, 3), canvas=(5, 5)))
        cs.append(dict(kind='shift', name='shift-catalog-3x3',
                       what='catalog', shape=(3, 3), canvas=(5, 5),
                       segm=SEG33))
        cs.append(dict(kind='transpose', name='transpose-catalog-3x3',
                       what='catalog', shape=(3, 3), segm=SEG33))
        cs.append(dict(kind='transpose', name='transpose-moments-3x3',
                       what='moments', shape=(3, 3)))
    return cs


def replay(f):
    p = f['params']
    if p['kind'] == 'conc':
        try:
            msg = _conc_check(p['what'], p['dx'], p['dy'], p['pad'])
        except Exception as e:  # noqa
            msg = f'raised {e!r}'
        return msg is not None, str(msg)
    if p['kind'] == 'conctr':
        msg = _conc_transpose(p['what'])
        return msg is not None, str(msg)
    # symbolic metamorphic findings: replay the same relation on floats
    from ..util import arr_from_witness
    from photutils.centroids import centroid_com
    w = f['witness']
    H, W = p['shape']
    A = arr_from_witness(w, 'a', (H, W))
    if p['kind'] == 'transpose':
        if p['what'] == 'com':
            c1, c2 = centroid_com(A), centroid_com(A.T.copy())
            return not np.allclose(c1, c2[::-1]), f'{c1} vs {c2}'
        if p['what'] == 'aperture':
            from photutils.aperture import (EllipticalAperture,
                                            RectangularAnnulus,
                                            RectangularAperture)
            E = arr_from_witness(w, 'e', (H, W))
            specs = [(EllipticalAperture, (1.2, 0.6), 0.4),
                     (EllipticalAperture, (1.3, 0.5), 2.2),
                     (RectangularAperture, (2.2, 1.0), 0.4),
                     (RectangularAperture, (2.2, 1.0), 2.1),
                     (RectangularAperture, (1.8, 1.1), -0.5),
                     (RectangularAnnulus, (0.9, 2.4, 1.3), 2.6)]
            for cls, args, th in specs:
                a1 = cls((0.8, 1.3), *args, theta=th)
                a2 = cls((1.3, 0.8), *args, theta=np.pi / 2 - th)
                for method in ('center', 'exact'):
                    m1 = a1.to_mask(method).to_image((H, W))
                    m2 = a2.to_mask(method).to_image((W, H))
                    if m1 is None or m2 is None or not np.allclose(
                            m1, m2.T, rtol=0, atol=1e-12):
                        return True, (f'{cls.__name__} theta={th} {method}: '
                                      f'mask of the transposed aperture is '
                                      f'not the transposed mask')
                s1, e1 = a1.do_photometry(A, error=np.abs(E), method='center')
                s2, e2 = a2.do_photometry(A.T.copy(), error=np.abs(E).T.copy(),
                                          method='center')
                if not (np.allclose(s1, s2, equal_nan=True)
                        and np.allclose(e1, e2, equal_nan=True)):
                    return True, (f'{cls.__name__} theta={th}: sums {s1} vs '
                                  f'{s2} on the transposed image')
            return False, 'all aperture relations hold on the witness'
        return False, 'replay of this relation needs the symbolic run'
    CH, CW = p['canvas']
    dy, dx = int(w.get('dy', 0)), int(w.get('dx', 0))
    dyv = list(range(0, CH - H + 1))[dy]
    dxv = list(range(0, CW - W + 1))[dx]
    C = np.zeros((CH, CW))
    C[dyv:dyv + H, dxv:dxv + W] = A
    if p['what'] == 'com':
        c1, c2 = centroid_com(A), centroid_com(C)
        return not np.allclose(c1 + [dxv, dyv], c2), f'{c1} -> {c2}'
    if p['what'] == 'detect':
        from photutils.segmentation import detect_sources
        t = float(w.get('t', 0.0))
        conn = [4, 8][int(w.get('conn', 0))]
        npix = [1, 2][int(w.get('npix', 0))]
        with warnings.catch_warnings():
            warnings.simplefilter('ignore')
            s1 = detect_sources(A, t, npix, connectivity=conn)
            s2 = detect_sources(C, t, npix, connectivity=conn)
        if (s1 is None) != (s2 is None):
            return True, 'None-ness differs'
        if s1 is None:
            return False, 'both None'
        exp = np.zeros((CH, CW), int)
        exp[dyv:dyv + H, dxv:dxv + W] = s1.data
        return not np.array_equal(exp, s2.data), 'embedded labels differ'
    return False, 'replay of this relation needs the symbolic run'
