"""C08 - indexing a catalog commutes with evaluating its properties.

Solver variables: the index expression (int / slice / int list / bool mask /
get_label(s)), which property is evaluated on the parent before slicing, and
the sequence of extra-property operations on parent/child.  Catalogs are
concrete small scenes.  Every public property of the child is compared with
the indexed property of a fully evaluated reference parent.
"""
import warnings

import numpy as np
import z3

from ..sym import Stats, explore

META = dict(
    functions=['photutils.segmentation.catalog:SourceCatalog.__getitem__',
               'photutils.segmentation.catalog:as_scalar',
               'photutils.segmentation.catalog:SourceCatalog.cutout_centroid_quad',
               'photutils.segmentation.catalog:SourceCatalog.add_extra_property',
               'photutils.segmentation.catalog:SourceCatalog.remove_extra_property',
               'photutils.segmentation.catalog:SourceCatalog.rename_extra_property',
               'photutils.segmentation.catalog:SourceCatalog.get_labels',
               'photutils.aperture.stats:ApertureStats.__getitem__',
               'photutils.aperture.stats:as_scalar',
               'photutils.aperture.stats:ApertureStats.get_ids'],
    bounds=('3 concrete scenes (4 sources incl. a 4-pixel source whose '
            'quadratic fit fails and a partly masked source; a 2x2 grid of '
            'identical sources with equal cutout shapes; ApertureStats with '
            '4 positions incl. off-image); every index expression over n=4 '
            '(ints -4..3, slices with start/stop in {None,-5..5} step in '
            '{1,2,-1,-2}, 1-2 element int lists, all 16 boolean masks, '
            'get_label(s)/get_id(s)); pre-read of any one public property '
            '(quick: a seed-rotated third of them; thorough: all, plus '
            'pairs for the scalar-index case); extra-property histories of '
            'length <= 2 on parent or child'),
    assumptions=['finite-domain exploration: the solver enumerates index '
                 'expressions / pre-read choices / operation sequences '
                 '(all-SAT); scenes are concrete',
                 'properties compared NaN-aware, units included, exact '
                 'equality for arrays'],
    stubs=[],
    outside=['catalogs with a WCS (sky_* properties are None here)',
             'n > 4 sources'],
    min_obligations=100,
)

_cache = {}


def _scene(name):
    from astropy.modeling.models import Gaussian2D
    from photutils.segmentation import (SegmentationImage, SourceCatalog,
                                        detect_sources)
    if name in _cache:
        return _cache[name]
    if name in ('mixed', 'mixed-kron3'):
        yy, xx = np.mgrid[:40, :44]
        img = np.zeros((40, 44))
        for (x, y, a, sx, sy, t) in [(10, 9, 50, 2.0, 1.2, 0.3),
                                     (30, 12, 80, 1.5, 1.5, 0),
                                     (12, 29, 40, 1.2, 2.2, 1.0)]:
            img += Gaussian2D(a, x, y, sx, sy, theta=t)(xx, yy)
        img[30:32, 34:36] = 5.0   # 4-pixel source: quadratic fit fails
        img += np.random.default_rng(1).normal(0, 0.05, img.shape)
        segm = detect_sources(img, 1.0, npixels=4)
        mask = np.zeros(img.shape, bool)
        mask[8:11, 9:12] = True
    else:   # grid of identical sources (identical cutout shapes)
        yy, xx = np.mgrid[:36, :36]
        img = np.zeros((36, 36))
        for (x, y) in [(8, 8), (26, 8), (8, 26), (26, 26)]:
            img += Gaussian2D(30, x, y, 1.6, 1.6)(xx, yy)
        segm = detect_sources(img, 1.0, npixels=4)
        mask = None
    # non-uniform maps: a mis-registered cutout must change the numbers
    err = (0.1 + 0.002 * np.arange(img.shape[1])[None, :] + 0.003 * np.arange(img.shape[0])[:, None])
    bkg = (0.01 + 0.0003 * np.arange(img.shape[1])[None, :] + 0.0002 * np.arange(img.shape[0])[:, None])

    # 'mixed-kron3': a minimum circular Kron radius that the small source hits
    kp = dict(kron_params=(2.5, 0.1, 3.0)) if name == 'mixed-kron3' else {}

    def make():
        return SourceCatalog(img, SegmentationImage(segm.data.copy()),
                             error=err, background=bkg, mask=mask,
                             localbkg_width=3, progress_bar=False, **kp)
    _cache[name] = make
    return make


def _stats_scene():
    from astropy.modeling.models import Gaussian2D
    from photutils.aperture import ApertureStats, EllipticalAperture
    if 'stats' in _cache:
        return _cache['stats']
    yy, xx = np.mgrid[:30, :32]
    img = (Gaussian2D(50, 10, 9, 2.0, 1.2, theta=0.3)(xx, yy)
           + Gaussian2D(30, 22, 20, 1.5, 2.5, theta=1.0)(xx, yy)
           + np.random.default_rng(2).normal(0, 0.1, (30, 32)))
    err = (0.2 + 0.004 * np.arange(img.shape[1])[None, :] + 0.003 * np.arange(img.shape[0])[:, None])
    mask = np.zeros(img.shape, bool)
    mask[8:10, 10:13] = True
    pos = [(10.2, 9.1), (22.0, 20.3), (-40.0, -40.0), (30.5, 3.0)]

    def make():
        ap = EllipticalAperture(pos, 4.0, 2.5, theta=0.4)
        return ApertureStats(img, ap, error=err, mask=mask,
                             local_bkg=[0.1, 0.0, 0.3, -0.2])
    _cache['stats'] = make
    return make


def _maker(scene):
    return _stats_scene() if scene == 'stats' else _scene(scene)


# ---- comparison helpers ---------------------------------------------------
def _eq(a, b):
    import astropy.units as u
    if a is None or b is None:
        return a is None and b is None
    if isinstance(a, u.Quantity) or isinstance(b, u.Quantity):
        if not (isinstance(a, u.Quantity) and isinstance(b, u.Quantity)):
            return False
        return a.unit == b.unit and _eq(a.value, b.value)
    if isinstance(a, np.ma.MaskedArray) or isinstance(b, np.ma.MaskedArray):
        if not (isinstance(a, np.ma.MaskedArray)
                and isinstance(b, np.ma.MaskedArray)):
            return False
        return (np.array_equal(np.ma.getmaskarray(a), np.ma.getmaskarray(b))
                and _eq(np.asarray(a.filled(0)), np.asarray(b.filled(0))))
    if isinstance(a, (list, tuple)) or isinstance(b, (list, tuple)):
        if isinstance(a, np.ndarray):
            a = list(a)
        if isinstance(b, np.ndarray):
            b = list(b)
        if not (isinstance(a, (list, tuple)) and isinstance(b, (list, tuple))):
            return False
        return len(a) == len(b) and all(_eq(x, y) for x, y in zip(a, b))
    if isinstance(a, np.ndarray) or isinstance(b, np.ndarray):
        a, b = np.asarray(a), np.asarray(b)
        if a.shape != b.shape:
            return False
        if a.dtype == object or b.dtype == object:
            return all(_eq(x, y) for x, y in zip(a.flat, b.flat))
        if a.dtype.kind in 'fc' or b.dtype.kind in 'fc':
            return bool(np.array_equal(a, b, equal_nan=True))
        return bool(np.array_equal(a, b))
    if isinstance(a, (float, np.floating)) and isinstance(
            b, (float, np.floating, int, np.integer)):
        return (a == b) or (a != a and b != b)
    if isinstance(a, (int, np.integer, bool, np.bool_, str)):
        return bool(a == b)
    if hasattr(a, 'data') and hasattr(a, 'label') and hasattr(b, 'label'):
        return a.label == b.label and _eq(np.asarray(a.data),
                                          np.asarray(b.data))
    if type(a) is not type(b):
        return False
    if hasattr(a, 'extent') and hasattr(a, 'ixmin'):
        return a == b
    if hasattr(a, 'positions'):
        return repr(a) == repr(b)
    if isinstance(a, slice):
        return a == b
    try:
        return bool(a == b)
    except Exception:  # noqa
        return repr(a) == repr(b)


def _index(v, idx, scalar):
    """Index a fully evaluated parent value the way the property defines."""
    import astropy.units as u
    if v is None:
        return None
    if isinstance(v, (list, tuple)):
        arr = np.empty(len(v), dtype=object)
        arr[:] = list(v)
        r = arr[idx]
        return r if scalar else list(r)
    if hasattr(v, 'positions') and not isinstance(v, np.ndarray):
        return v[idx]      # aperture object holding all positions
    return v[idx]


def _mkindex(ctx, n):
    kind = ctx.choice('kind', ['int', 'slice', 'list', 'bool', 'label'])
    if kind == 'int':
        i = ctx.choice('i', list(range(-n, n)))
        return kind, i, i, True
    if kind == 'slice':
        opts = [None] + list(range(-n - 1, n + 2))
        a = ctx.choice('a', opts)
        b = ctx.choice('b', opts)
        c = ctx.choice('c', [1, 2, -1, -2])
        s = slice(a, b, c)
        return kind, s, s, False
    if kind == 'list':
        i = ctx.choice('i', list(range(-n, n)))
        two = ctx.flag('two')
        l = [i]
        if two:
            l.append(ctx.choice('j', list(range(-n, n))))
        return kind, l, l, False
    if kind == 'bool':
        bits = [ctx.flag(f'b{k}') for k in range(n)]
        m = np.array(bits)
        if ctx.flag('aslist'):
            # the same mask given as a plain Python list of bools
            m = [bool(b) for b in bits]
        return kind, m, m, False
    # label / id based selection
    i = ctx.choice('i', list(range(n)))
    two = ctx.flag('two')
    if two:
        j = ctx.choice('j', list(range(n)))
        return 'labels', [i, j], [i, j], False
    return 'label', i, i, True


def _all_values(obj, props):
    vals = {}
    for p in props:
        with warnings.catch_warnings():
            warnings.simplefilter('ignore')
            vals[p] = getattr(obj, p)
    return vals


def _check_index(scene, kind, idx, pre, scalar, twin=False, perm=False):
    """-> None or (prop, message).  ``perm``: the label / id selection is
    made on a catalog whose rows were first permuted with a fancy index (ids
    and labels no longer ascending)."""
    make = _maker(scene)
    ref = _cache.get(('full', scene))
    if ref is None:
        parent = make()
        props = list(parent.properties)
        ref = (props, _all_values(parent, props))
        _cache[('full', scene)] = ref
    props, full = ref
    cat = make()
    with warnings.catch_warnings():
        warnings.simplefilter('ignore')
        for p in pre:
            getattr(cat, p)
        if kind in ('label', 'labels'):
            if perm:
                ids0 = np.asarray(cat.ids if scene == 'stats' else cat.labels)
                cat = cat[[2, 0, 3, 1]]
                sel = ids0[idx]
                if scene == 'stats':
                    child = cat.get_id(sel) if kind == 'label' else \
                        cat.get_ids(list(sel))
                else:
                    child = cat.get_label(sel) if kind == 'label' else \
                        cat.get_labels(list(sel))
            elif scene == 'stats':
                ids = np.asarray(cat.ids)
                child = cat.get_id(ids[idx]) if kind == 'label' else \
                    cat.get_ids(list(ids[idx]))
            else:
                labs = np.asarray(cat.labels)
                child = cat.get_label(labs[idx]) if kind == 'label' else \
                    cat.get_labels(list(labs[idx]))
        else:
            child = cat[idx]
        for p in props:
            try:
                got = getattr(child, p)
            except Exception as e:  # noqa
                return p, f'child.{p} raised {e!r}'
            if np.isscalar(full[p]) or full[p] is None:
                continue   # not a per-source quantity (isscalar, n_...)
            exp = _index(full[p], idx, scalar)
            if twin and p == 'segment_flux':
                exp = exp * 1.5          # perturbed oracle
            if p == 'labels':   # documented: always an iterable
                got, exp = np.atleast_1d(got), np.atleast_1d(exp)
            if not _eq(got, exp):
                return p, (f'cat[{idx!r}].{p} = {str(got)[:120]} != '
                           f'cat.{p}[{idx!r}] = {str(exp)[:120]}')
        # and the parent is untouched by the indexing
        for p in pre:
            if perm:
                break
            if not _eq(getattr(cat, p), full[p]):
                return p, f'parent.{p} changed by indexing'
    return None


def _nonempty(idx, n):
    try:
        return len(np.atleast_1d(np.arange(n)[idx])) > 0
    except IndexError:
        return False


def _run_index(case):
    scene = case['scene']
    n = 4
    make = _maker(scene)
    props = list(make().properties)
    prepool = case['pre']      # list of property names or '-'
    cnt = dict(n=0)
    samples = []

    def fn(ctx):
        kind, idx, idxv, scalar = _mkindex(ctx, n)
        if kind != 'label' and kind != 'labels' and not _nonempty(idx, n):
            return
        if kind == 'labels' and idx[0] == idx[1]:
            return
        pre = []
        p0 = ctx.choice('pre0', prepool)
        if p0 != '-':
            pre.append(p0)
        if case.get('pairs'):
            p1 = ctx.choice('pre1', case['pairs'])
            if p1 != '-':
                pre.append(p1)
        perm = ctx.flag('perm') if kind in ('label', 'labels') else False
        ctx.stats.obligations += 1
        cnt['n'] += 1
        bad = _check_index(scene, kind, idx, pre, scalar,
                           twin=bool(case.get('twin')), perm=perm)
        params = dict(kind='index', scene=scene, ikind=kind,
                      idx=_ser(idx), pre=pre, scalar=scalar, perm=perm)
        if bad is None:
            ctx.stats.unsat += 1
        else:
            ctx.stats.sat += 1
            ctx.find(f'index:{scene}:{bad[0]}:{kind}'
                     f'{":pre" if pre else ""}',
                     f'pre-read {pre}: {bad[1]}', ctx.witness(),
                     params=params)
        if len(samples) < 3:
            samples.append(dict(scene=scene, index=_ser(idx), pre=pre))

    _, st, f = explore(fn)
    return dict(stats=st, findings=f, samples=samples, nontrivial=cnt['n'])


def _ser(idx):
    if isinstance(idx, slice):
        return ['slice', idx.start, idx.stop, idx.step]
    if isinstance(idx, np.ndarray):
        return ['bool'] + [bool(b) for b in idx]
    return idx


def _deser(v):
    if isinstance(v, list) and v and v[0] == 'slice':
        return slice(v[1], v[2], v[3])
    if isinstance(v, list) and v and v[0] == 'bool':
        return np.array(v[1:], dtype=bool)
    return v


# ---- independence of parent and child ------------------------------------------
OPS = ['add', 'rename', 'remove', 'circ', 'kron', 'kronprop']


def _snap(cat):
    with warnings.catch_warnings():
        warnings.simplefilter('ignore')
        ep = list(cat.extra_properties)
        tbl = cat.to_table(columns=['label', 'segment_flux'] + ep)
        return ep, {c: np.array(tbl[c]) for c in tbl.colnames}


def _do(cat, op, k):
    n = cat.nlabels
    if op == 'add':
        cat.add_extra_property(f'x{k}', np.arange(n) + 10.0 * k)
    elif op == 'rename':
        if cat.extra_properties:
            cat.rename_extra_property(cat.extra_properties[0], f'r{k}')
    elif op == 'remove':
        if cat.extra_properties:
            cat.remove_extra_property(cat.extra_properties[0])
    elif op == 'circ':
        cat.circular_photometry(2.0 + k, name=f'c{k}')
    elif op == 'kron':
        cat.kron_photometry((2.5, 0.1 + 0.7 * (k % 2)), name=f'k{k}')
    elif op == 'kronprop':
        # the Kron properties with the catalog's own kron_params
        cat.kron_radius, cat.kron_flux, cat.kron_fluxerr


def _check_indep(idx, seq, preread=False, scene='mixed'):
    """seq: list of (target, op).  -> None or message."""
    make = _scene(scene)
    cat = make()
    with warnings.catch_warnings():
        warnings.simplefilter('ignore')
        cat.add_extra_property('base', np.arange(cat.nlabels) * 1.0)
        if preread:
            cat.kron_radius, cat.kron_flux     # cached before indexing
        child = cat[idx]
        objs = dict(parent=cat, child=child)
        for k, (target, op) in enumerate(seq):
            other = 'child' if target == 'parent' else 'parent'
            before = _snap(objs[other])
            try:
                _do(objs[target], op, k + 1)
            except Exception as e:  # noqa
                return f'{op} on {target} raised {e!r}'
            try:
                after = _snap(objs[other])
            except Exception as e:  # noqa
                return (f'after {op} on {target}: {other}.to_table raised '
                        f'{e!r}')
            if op == 'kronprop':
                fresh = make()
                if target == 'child':
                    fresh = fresh[idx]
                for col in ('kron_radius', 'kron_flux', 'kron_fluxerr'):
                    a = np.atleast_1d(np.asarray(getattr(objs[target], col)))
                    b = np.atleast_1d(np.asarray(getattr(fresh, col)))
                    if not np.allclose(a, b, rtol=1e-10, atol=0,
                                       equal_nan=True):
                        return (f'{col} of {target} = {a} but a fresh '
                                f'catalog gives {b}')
            if op in ('circ', 'kron'):
                # what the method reports must be what a fresh catalog
                # (same index) reports for the same call
                fresh = make()
                if target == 'child':
                    fresh = fresh[idx]
                _do(fresh, op, k + 1)
                nm = ('c' if op == 'circ' else 'k') + str(k + 1)
                for col in (nm + '_flux', nm + '_fluxerr'):
                    a = np.atleast_1d(np.asarray(getattr(objs[target], col)))
                    b = np.atleast_1d(np.asarray(getattr(fresh, col)))
                    if not np.allclose(a, b, rtol=1e-10, atol=0,
                                       equal_nan=True):
                        return (f'{op} on {target}: {col} = {a} but a fresh '
                                f'catalog gives {b}')
            if before[0] != after[0]:
                return (f'after {op} on {target}: {other}.extra_properties '
                        f'{before[0]} -> {after[0]}')
            for c in before[1]:
                if not np.array_equal(before[1][c], after[1][c],
                                      equal_nan=True):
                    return f'after {op} on {target}: {other}.{c} changed'
    return None


def _run_indep(case):
    cnt = dict(n=0)
    samples = []

    def fn(ctx):
        ik = ctx.choice('ikind', ['slice', 'list', 'bool', 'int'])
        idx = {'slice': slice(1, 4), 'list': [3, 0],
               'bool': np.array([True, False, True, True]), 'int': 3}[ik]
        preread = ctx.flag('preread')
        scene = case.get('scene', 'mixed')
        seq = []
        for k in range(case['len']):
            t = ctx.choice(f't{k}', ['parent', 'child'])
            op = ctx.choice(f'op{k}', OPS)
            seq.append((t, op))
        ctx.stats.obligations += 1
        cnt['n'] += 1
        msg = _check_indep(idx, seq, preread, scene)
        if msg is None:
            ctx.stats.unsat += 1
        else:
            ctx.stats.sat += 1
            ctx.find(f'independence:{seq[-1][1]}', f'index {ik}, preread '
                     f'{preread}, ops {seq}: ' + msg, ctx.witness(),
                     params=dict(kind='indep', idx=_ser(idx), seq=seq,
                                 preread=preread, scene=scene))
        if len(samples) < 2:
            samples.append(dict(index=ik, seq=seq))

    _, st, f = explore(fn)
    return dict(stats=st, findings=f, samples=samples, nontrivial=cnt['n'])


def run_case(case):
    return _run_indep(case) if case['kind'] == 'indep' else _run_index(case)


def cases(tier, seed):
    cs = []
    for scene in ('mixed', 'grid', 'stats'):
        props = list(_maker(scene)().properties)
        if tier == 'quick':
            sel = [p for k, p in enumerate(props) if (k + seed) % 3 == 0]
            must = [p for p in ('data', 'segment', 'covar_sigx2',
                                'semimajor_sigma', 'centroid_quad',
                                'kron_flux', 'orientation', 'cutout_centroid')
                    if p in props]
            sel = sorted(set(sel) | set(must))
        else:
            sel = props
        chunks = [sel[i::6] for i in range(6)]
        for k, ch in enumerate(chunks):
            pre = (['-'] if k == 0 else []) + ch
            if pre:
                cs.append(dict(kind='index', name=f'index-{scene}-pre{k}',
                               scene=scene, pre=pre))
        if tier == 'thorough':
            keyp = [p for p in ('covar_sigx2', 'semimajor_sigma', 'data',
                                'centroid', 'kron_radius', 'moments',
                                'orientation', 'sum', 'bbox')
                    if p in props]
            for k, p in enumerate(keyp):
                cs.append(dict(kind='index', name=f'index-{scene}-pairs{k}',
                               scene=scene, pre=[p], pairs=['-'] + keyp))
    cs.append(dict(kind='index', name='index-twin', scene='grid', pre=['-'],
                   twin=True))
    cs.append(dict(kind='indep', name='independence-len1', len=1))
    cs.append(dict(kind='indep', name='independence-len2', len=2))
    cs.append(dict(kind='indep', name='independence-kron3-len2', len=2,
                   scene='mixed-kron3'))
    return cs


def replay(f):
    p = f['params']
    if p['kind'] == 'indep':
        msg = _check_indep(_deser(p['idx']), [tuple(s) for s in p['seq']],
                           bool(p.get('preread')), p.get('scene', 'mixed'))
        return msg is not None, str(msg)
    bad = _check_index(p['scene'], p['ikind'], _deser(p['idx']), p['pre'],
                       p['scalar'], perm=bool(p.get('perm')))
    return bad is not None, str(bad)
