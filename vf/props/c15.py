"""C15 - results do not depend on how the same numbers are represented.

(a) SYM: process_quantities on a symbolic presence/unit vector; NaN-free
    symbolic arrays through Fortran-ordered / strided / empty-mask
    MaskedArray containers give solver-equal results for do_photometry,
    detect_sources and centroid_com.
(b) differential runs driven by a solver-chosen representation vector: every
    entry point is run on the float64 C-contiguous baseline and on the chosen
    representation of the *same numbers*; outputs must agree (exactly for
    layout changes, to float32 precision for float32 input) and carry units
    for Quantity input; mixing unit-ful and unit-less inputs must raise.
"""
import warnings

import numpy as np
import z3

from ..sym import Stats, explore, same, symarray

META = dict(
    functions=['photutils.utils._quantity_helpers:process_quantities',
               'photutils.utils.errors:calc_total_error',
               'photutils.utils._convolution:_filter_data',
               'photutils.utils._stats:nanmean',
               'photutils.background.background_2d:Background2D._calculate_stats',
               'photutils.aperture.photometry:aperture_photometry',
               'photutils.aperture.stats:ApertureStats.__init__',
               'photutils.segmentation.catalog:SourceCatalog._prepare_cutouts',
               'photutils.psf.photometry:PSFPhotometry.__call__',
               'photutils.detection.daofinder:DAOStarFinder.find_stars',
               'photutils.detection.irafstarfinder:IRAFStarFinder.find_stars',
               'photutils.detection.starfinder:StarFinder.find_stars',
               'photutils.detection.peakfinder:find_peaks',
               'photutils.centroids.core:centroid_com',
               'photutils.profiles.core:ProfileBase.__init__'],
    bounds=('20 entry points x representation in {float32, int16, int32, '
            'uint16, int64, big-endian float64, big-endian float32, Fortran '
            'order, strided view, MaskedArray with empty mask, Quantity, '
            'NDData (where accepted), mixed units} on an integer-valued '
            '40x44 scene (so that every dtype holds exactly the same '
            'numbers); process_quantities over all presence/unit vectors of '
            '3 inputs'),
    assumptions=['finite product of entry points and representations '
                 'enumerated by the solver; one scene',
                 'float32 input compared with rtol 2e-4; integer/byte-order/'
                 'layout variants with rtol 1e-9',
                 'Background2D with integer input is documented to round its '
                 'output: compared after rounding the float64 result'],
    stubs=[],
    outside=['entry points not listed', 'values not exactly representable '
             'in float32/integers'],
    min_obligations=100,
)

REPRS = ['float32', 'int16', 'int32', 'uint16', 'int64', '>f8', '>f4',
         'fortran', 'strided', 'masked-empty', 'quantity', 'nddata',
         'mixed-units', 'quantity-aux-scaled']


def _scene():
    from astropy.modeling.models import Gaussian2D
    yy, xx = np.mgrid[:40, :44]
    img = np.zeros((40, 44))
    for (x, y, a, s) in [(10, 9, 600, 1.6), (30, 12, 900, 1.5),
                         (13, 29, 500, 1.8), (31, 30, 700, 1.4)]:
        img += Gaussian2D(a, x, y, s, s)(xx, yy)
    img += np.random.default_rng(5).normal(20, 4, img.shape)
    return np.round(img)        # integer-valued, non-negative, < 32767


def _represent(arr, rep):
    import astropy.units as u
    if rep in ('float32', 'int16', 'int32', 'uint16', 'int64'):
        return arr.astype(rep)
    if rep in ('>f8', '>f4'):
        return arr.astype(rep)
    if rep == 'fortran':
        return np.asfortranarray(arr)
    if rep == 'strided':
        big = np.zeros((arr.shape[0] + 4, arr.shape[1] * 2 + 2), arr.dtype)
        v = big[2:-2, 1:-1:2]
        v[...] = arr
        return v
    if rep == 'masked-empty':
        return np.ma.MaskedArray(arr.copy(), mask=np.zeros(arr.shape, bool))
    if rep == 'quantity':
        return arr * u.adu
    if rep == 'quantity-aux-scaled':
        return arr * u.Jy
    return arr.copy()


# auxiliary quantities (errors, thresholds, initial fluxes, local backgrounds)
# are given in an equivalent but different unit (mJy for data in Jy)
_AUX = dict(scaled=False)


def _entries():
    import astropy.units as u
    from astropy.nddata import NDData, StdDevUncertainty
    from astropy.table import QTable
    from photutils.aperture import (ApertureStats, CircularAperture,
                                    aperture_photometry)
    from photutils.background import Background2D
    from photutils.centroids import (centroid_1dg, centroid_2dg, centroid_com,
                                     centroid_quadratic)
    from photutils.detection import (DAOStarFinder, IRAFStarFinder,
                                     StarFinder, find_peaks)
    from photutils.profiles import CurveOfGrowth, RadialProfile
    from photutils.psf import CircularGaussianPRF, PSFPhotometry
    from photutils.segmentation import (SourceCatalog, detect_sources,
                                        detect_threshold)
    from photutils.utils import calc_total_error
    POS = [(10.0, 9.0), (30.0, 12.0), (13.0, 29.0), (31.0, 30.0)]
    E = {}

    def val(x):
        if _AUX['scaled'] and getattr(x, 'unit', None) is not None:
            if x.unit.is_equivalent(u.Jy):
                x = x.to(u.Jy)
            elif x.unit.is_equivalent(u.Jy ** 2):
                x = x.to(u.Jy ** 2)
        return np.asarray(getattr(x, 'value', x), dtype=float)

    def tbl(t, cols):
        return {c: val(t[c]) for c in cols if c in t.colnames}

    def unit_of(x):
        return getattr(x, 'unit', None)

    def q(v, d):
        if _AUX['scaled'] and hasattr(d, 'unit'):
            return (np.asarray(v, float) * 1000.0) * u.mJy
        return v * d.unit if hasattr(d, 'unit') else v

    def e_aper(d, e, nd):
        ap = CircularAperture(POS, 3.0)
        t = aperture_photometry(nd if nd is not None else d, ap,
                                error=None if nd is not None else e)
        return tbl(t, ['aperture_sum', 'aperture_sum_err']), unit_of(
            t['aperture_sum'])
    E['aperture_photometry'] = (True, True, e_aper)

    def e_stats(d, e, nd):
        ap = CircularAperture(POS, 3.5)
        st = ApertureStats(nd if nd is not None else d, ap,
                           error=None if nd is not None else e)
        out = {p: val(getattr(st, p)) for p in
               ('sum', 'sum_err', 'mean', 'median', 'std', 'xcentroid',
                'ycentroid', 'max', 'semimajor_sigma')}
        return out, unit_of(st.sum)
    E['ApertureStats'] = (True, True, e_stats)

    def e_stats_lb(d, e, nd):
        # integer-valued local background level (scalar) without sigma clip
        ap = CircularAperture(POS, 3.5)
        src = nd if nd is not None else d
        st = ApertureStats(src, ap, error=None if nd is not None else e,
                           local_bkg=q(3, src), sigma_clip=None)
        out = {p: val(getattr(st, p)) for p in
               ('sum', 'sum_err', 'mean', 'median', 'std', 'xcentroid',
                'ycentroid', 'min', 'max')}
        return out, unit_of(st.sum)
    E['ApertureStats/local_bkg'] = (True, True, e_stats_lb)

    def e_bkg(d, e, nd):
        b = Background2D(d, (10, 11), filter_size=3)
        return dict(background=val(b.background),
                    rms=val(b.background_rms),
                    median=np.atleast_1d(val(b.background_median))), \
            unit_of(b.background)
    E['Background2D'] = (True, False, e_bkg)

    def e_detect(d, e, nd):
        segm = detect_sources(d, q(60.0, d), 5)
        thr = detect_threshold(d, 2.0)
        return dict(segm=segm.data.astype(float), thr=val(thr)), unit_of(thr)
    E['detect_sources'] = (True, False, e_detect)

    def e_cat(d, e, nd):
        segm = detect_sources(val(d), 60.0, 5)
        cat = SourceCatalog(d, segm, error=e, progress_bar=False)
        out = {p: val(getattr(cat, p)) for p in
               ('segment_flux', 'segment_fluxerr', 'xcentroid', 'ycentroid',
                'kron_flux', 'semimajor_sigma', 'max_value')}
        return out, unit_of(cat.segment_flux)
    E['SourceCatalog'] = (True, False, e_cat)

    def e_peaks(d, e, nd):
        t = find_peaks(d, q(100.0, d), box_size=5)
        return tbl(t, ['x_peak', 'y_peak', 'peak_value']), unit_of(
            t['peak_value'])
    E['find_peaks'] = (True, False, e_peaks)

    def _finder(F, **kw):
        def run(d, e, nd):
            t = F(d)
            if t is None:
                return dict(n=np.array([0.0])), None
            cols = [c for c in t.colnames if c not in ('id',)]
            return tbl(t, cols), unit_of(t['flux'])
        return run
    E['DAOStarFinder'] = (True, False, _finder(
        lambda d: DAOStarFinder(q(50.0, d), 3.6)(d)))
    E['IRAFStarFinder'] = (True, False, _finder(
        lambda d: IRAFStarFinder(q(50.0, d), 3.6)(d)))

    def _star(d):
        yy, xx = np.mgrid[-3:4, -3:4]
        kern = np.exp(-(xx ** 2 + yy ** 2) / (2 * 1.5 ** 2))
        return StarFinder(q(50.0, d), kern)(d)
    E['StarFinder'] = (True, False, _finder(_star))

    def e_cen(d, e, nd):
        c = d[3:16, 3:18]
        with warnings.catch_warnings():
            warnings.simplefilter('ignore')
            out = dict(com=centroid_com(c), quad=centroid_quadratic(c),
                       g1=centroid_1dg(c), g2=centroid_2dg(c))
        return {k: val(v) for k, v in out.items()}, None
    E['centroids'] = (True, False, e_cen)

    def e_prof(d, e, nd):
        rp = RadialProfile(d, (10.0, 9.0), np.array([0, 1, 2, 4, 6.0]),
                           error=e)
        cg = CurveOfGrowth(d, (10.0, 9.0), np.array([1, 2, 4, 6.0]), error=e)
        return dict(rp=val(rp.profile), rpe=val(rp.profile_error),
                    cg=val(cg.profile), cge=val(cg.profile_error)), \
            unit_of(rp.profile)
    E['profiles'] = (True, False, e_prof)

    def e_psf(d, e, nd):
        model = CircularGaussianPRF(fwhm=3.6)
        init = QTable(dict(x=[10.1, 30.2, 12.9, 31.0],
                           y=[9.0, 12.1, 29.0, 29.9]))
        src = nd if nd is not None else d
        init['flux'] = q(np.array([9000., 12000., 9500., 8000.]), src)
        init['local_bkg'] = q(np.array([20., 21., 19., 20.]), src)
        ph = PSFPhotometry(model, (5, 5), aperture_radius=4)
        t = ph(nd if nd is not None else d,
               error=None if nd is not None else e, init_params=init)
        return tbl(t, ['x_fit', 'y_fit', 'flux_fit', 'flux_err']), unit_of(
            t['flux_fit'])
    E['PSFPhotometry'] = (True, True, e_psf)

    def e_toterr(d, e, nd):
        bk = q(np.full(val(d).shape, 3.0), d)
        gain = np.full(val(d).shape, 2.0)
        if hasattr(d, 'unit'):
            gain = gain * (u.electron / d.unit)
        r = calc_total_error(d, bk, gain)
        return dict(err=val(r)), unit_of(r)
    E['calc_total_error'] = (True, False, e_toterr)

    # ---- second batch ---------------------------------------------------
    def e_est(d, e, nd):
        import photutils.background as pb
        from astropy.stats import SigmaClip
        out = {}
        unit = None
        for name in ('MeanBackground', 'MedianBackground',
                     'ModeEstimatorBackground', 'MMMBackground',
                     'SExtractorBackground', 'BiweightLocationBackground',
                     'StdBackgroundRMS', 'MADStdBackgroundRMS',
                     'BiweightScaleBackgroundRMS'):
            r = getattr(pb, name)(sigma_clip=SigmaClip(3.0))(d)
            out[name] = val(r)
            unit = unit_of(r)
        return out, unit
    E['background-estimators'] = (True, False, e_est)

    def e_local(d, e, nd):
        from photutils.background import LocalBackground
        r = LocalBackground(4, 8)(d, np.array([10.0, 30.0, 13.0]),
                                  np.array([9.0, 12.0, 29.0]))
        return dict(local=val(r)), unit_of(r)
    E['LocalBackground'] = (True, False, e_local)

    def e_thr(d, e, nd):
        r = detect_threshold(d, 2.5)
        bk = q(np.full(val(d).shape, 20.0), d)
        r2 = detect_threshold(d, 2.0, background=bk, error=e)
        return dict(thr=val(r), thr2=val(r2)), unit_of(r)
    E['detect_threshold'] = (True, False, e_thr)

    def e_props(d, e, nd):
        from photutils.morphology import data_properties
        sub = d[3:16, 3:18]
        bk = q(np.full(val(sub).shape, 20.0), d)
        pr = data_properties(sub, background=bk)
        out = {a: val(getattr(pr, a)) for a in
               ('xcentroid', 'ycentroid', 'semimajor_sigma',
                'semiminor_sigma', 'segment_flux', 'max_value')}
        return out, unit_of(pr.segment_flux)
    E['data_properties'] = (True, False, e_props)

    def e_dophot(d, e, nd):
        from photutils.aperture import EllipticalAperture
        ap = EllipticalAperture(POS, 4.0, 2.5, theta=0.5)
        s_, se = ap.do_photometry(d, error=e)
        ao = ap.area_overlap(d)
        m = ap.to_mask()[0]
        return dict(sum=val(s_), err=val(se), area=val(ao),
                    cutout=val(m.cutout(d)), mult=val(m.multiply(d)),
                    vals=val(m.get_values(d))), unit_of(s_)
    E['do_photometry+ApertureMask'] = (True, False, e_dophot)

    def e_fwhm(d, e, nd):
        from photutils.psf import fit_fwhm
        r = fit_fwhm(d, xypos=POS, fit_shape=7, error=e)
        return dict(fwhm=val(r)), None
    E['fit_fwhm'] = (False, False, e_fwhm)

    def e_deblend(d, e, nd):
        from photutils.segmentation import deblend_sources
        segm = detect_sources(d, q(60.0, d), 5)
        out = deblend_sources(d, segm, 5, nlevels=8, progress_bar=False)
        return dict(labels=np.asarray(out.data, float)), None
    E['detect+deblend'] = (True, False, e_deblend)
    return E


def _compare(a, b, rtol, atol):
    for k in a:
        if k not in b:
            return f'output {k} missing'
        x, y = np.atleast_1d(a[k]), np.atleast_1d(b[k])
        if x.shape != y.shape:
            return f'output {k}: shape {y.shape} vs baseline {x.shape}'
        if not np.allclose(x, y, rtol=rtol, atol=atol, equal_nan=True):
            i = int(np.nanargmax(np.abs(x - y)))
            return (f'output {k}: {y.flat[i]} vs float64 baseline '
                    f'{x.flat[i]}')
    return None


def _check(entry, rep, twin=False):
    import astropy.units as u
    from astropy.nddata import NDData, StdDevUncertainty
    E = _entries()
    takes_q, takes_nd, fn = E[entry]
    img = _scene()
    # integer-valued, non-uniform error map (exact in every dtype)
    err = 3.0 + (np.arange(img.shape[1])[None, :] % 3) + (
        np.arange(img.shape[0])[:, None] % 2)
    with warnings.catch_warnings():
        warnings.simplefilter('ignore')
        base, _ = fn(img.copy(), err.copy(), None)
        if twin:
            base = {k: v * 1.01 for k, v in base.items()}   # perturbed
        if rep == 'mixed-units':
            if not takes_q:
                return None
            try:
                fn(img * u.adu, err.copy(), None)
            except Exception:  # noqa
                return None
            if entry in ('detect_sources', 'find_peaks', 'Background2D',
                         'centroids', 'DAOStarFinder', 'IRAFStarFinder',
                         'StarFinder', 'calc_total_error',
                         'background-estimators', 'LocalBackground',
                         'data_properties', 'detect+deblend'):
                return None      # no unit-less second input in that call
            return 'mixing a Quantity with a unit-less error did not raise'
        if rep == 'nddata':
            if not takes_nd:
                return None
            nd = NDData(img.copy(), uncertainty=StdDevUncertainty(err.copy()),
                        unit=u.adu)
            try:
                out, unit = fn(None, None, nd)
            except Exception as e:  # noqa
                return f'NDData input failed: {e!r}'
            if unit != u.adu:
                return f'NDData with unit: output unit {unit}'
            return _compare(base, out, 1e-9, 1e-9)
        d = _represent(img, rep)
        e = err.copy()
        _AUX['scaled'] = (rep == 'quantity-aux-scaled')
        if rep == 'quantity-aux-scaled':
            # only PSFPhotometry documents *compatible* (not identical)
            # units, for the flux / local_bkg columns of init_params; every
            # other input must carry exactly the data unit
            if entry != 'PSFPhotometry':
                _AUX['scaled'] = False
                return None
            e = e * u.Jy
        if rep == 'quantity':
            e = e * u.adu
        if rep in ('float32', '>f4'):
            e = e.astype(np.float32)
        try:
            out, unit = fn(d, e, None)
        except Exception as ex:  # noqa
            return f'{rep} input failed although float64 works: {ex!r}'
        finally:
            _AUX['scaled'] = False
    if rep in ('quantity', 'quantity-aux-scaled') and base and unit is None \
            and entry not in (
            'centroids', 'fit_fwhm', 'detect+deblend'):
        return 'Quantity input: output carries no unit'
    rtol, atol = (2e-4, 2e-3) if rep in ('float32', '>f4') else (1e-9, 1e-9)
    if entry == 'Background2D' and rep in ('int16', 'int32', 'uint16',
                                           'int64'):
        base = {k: np.round(v) for k, v in base.items()}
        out = {k: np.round(v) for k, v in out.items()}
        rtol, atol = 0, 1.0      # documented integer-output rounding
    if entry in ('DAOStarFinder', 'IRAFStarFinder', 'StarFinder',
                 'PSFPhotometry', 'centroids', 'fit_fwhm',
                 'data_properties') and rep in ('float32', '>f4'):
        rtol, atol = 2e-3, 2e-3
    return _compare(base, out, rtol, atol)


def _run_entry(case):
    entry = case['entry']
    cnt = dict(n=0)
    samples = []

    def fn(ctx):
        rep = ctx.choice('repr', REPRS)
        ctx.stats.obligations += 1
        cnt['n'] += 1
        msg = _check(entry, rep, twin=bool(case.get('twin')))
        if msg is None:
            ctx.stats.unsat += 1
        else:
            ctx.stats.sat += 1
            ctx.find(f'repr:{entry}:{rep}', f'{entry} with {rep} input: '
                     + msg, ctx.witness(), params=dict(kind='entry',
                                                       entry=entry, rep=rep))
        if len(samples) < 2:
            samples.append(dict(entry=entry, repr=rep))

    _, st, f = explore(fn)
    return dict(stats=st, findings=f, samples=samples, nontrivial=cnt['n'])


# ---- process_quantities ------------------------------------------------------
def _pq_check(kinds):
    """kinds: tuple of 'none'|'bare'|'A'|'B' for three inputs."""
    import astropy.units as u
    from photutils.utils._quantity_helpers import process_quantities
    units = dict(A=u.Jy, B=u.adu)
    vals = []
    for k in kinds:
        if k == 'none':
            vals.append(None)
        elif k == 'bare':
            vals.append(np.arange(3.0))
        else:
            vals.append(np.arange(3.0) * units[k])
    present = [k for k in kinds if k != 'none']
    distinct = set(present)
    try:
        out, unit = process_quantities(vals, ['a', 'b', 'c'])
    except ValueError:
        return None if len(distinct) > 1 else 'raised for consistent inputs'
    if len(distinct) > 1:
        return f'mixed inputs {kinds} accepted'
    exp_unit = None if not distinct or distinct == {'bare'} else units[
        next(iter(distinct))]
    if unit != exp_unit:
        return f'unit {unit} != {exp_unit}'
    for v, k in zip(out, kinds):
        if k == 'none':
            if v is not None:
                return 'None not preserved'
        elif hasattr(v, 'unit') or not np.array_equal(v, np.arange(3.0)):
            return 'value not stripped to the bare numbers'
    return None


def _run_pq(case):
    cnt = dict(n=0)

    def fn(ctx):
        kinds = tuple(ctx.choice(f'k{i}', ['none', 'bare', 'A', 'B'])
                      for i in range(3))
        if all(k == 'none' for k in kinds):
            return       # at least one input is always present
        ctx.stats.obligations += 1
        cnt['n'] += 1
        msg = _pq_check(kinds)
        if msg is None:
            ctx.stats.unsat += 1
        else:
            ctx.stats.sat += 1
            ctx.find('process_quantities', f'{kinds}: {msg}', ctx.witness(),
                     params=dict(kind='pq', kinds=kinds))

    _, st, f = explore(fn)
    return dict(stats=st, findings=f, samples=[dict(case='pq')],
                nontrivial=cnt['n'])


# ---- symbolic layout independence ------------------------------------------------
def _run_symlayout(case):
    from .. import facade
    facade.install()
    from photutils.aperture import CircularAperture
    from photutils.centroids import centroid_com
    from photutils.segmentation import detect_sources
    cnt = dict(n=0)

    def fn(ctx):
        H, W = 3, 3
        data = symarray(ctx, 'd', (H, W))
        err = symarray(ctx, 'e', (H, W))
        lay = ctx.choice('layout', ['fortran', 'strided'])
        if lay == 'fortran':
            d2 = np.asfortranarray(data).view(type(data))
            e2 = np.asfortranarray(err).view(type(data))
        else:
            big = np.empty((H, 2 * W), dtype=object)
            big[:] = 0.0
            big[:, ::2] = data
            d2 = big[:, ::2].view(type(data))
            bige = np.empty((2 * H, W), dtype=object)
            bige[:] = 0.0
            bige[::2, :] = err
            e2 = bige[::2, :].view(type(data))
        ap = CircularAperture((0.9, 1.2), 1.2)
        s1, er1 = ap.do_photometry(data, error=err)
        s2, er2 = ap.do_photometry(d2, error=e2)
        c1 = centroid_com(data)
        c2 = centroid_com(d2)
        t = ctx.real('t')
        g1 = detect_sources(data, t, 1)
        g2 = detect_sources(d2, t, 1)
        cnt['n'] += 1
        conds = [same(s1[0], s2[0]), same(er1[0] * er1[0], er2[0] * er2[0]),
                 same(c1[0], c2[0]), same(c1[1], c2[1]),
                 z3.BoolVal((g1 is None) == (g2 is None) and (
                     g1 is None or np.array_equal(g1.data, g2.data)))]
        r, m = ctx.holds(z3.And(conds), 'layout')
        if r == 'sat':
            ctx.find('symlayout', f'{lay} layout changes a result',
                     ctx.witness(m), params=dict(kind='symlayout'))

    _, st, f = explore(fn)
    return dict(stats=st, findings=f, samples=[dict(case='symlayout')],
                nontrivial=cnt['n'])


def run_case(case):
    return dict(entry=_run_entry, pq=_run_pq,
                symlayout=_run_symlayout)[case['kind']](case)


def cases(tier, seed):
    cs = [dict(kind='entry', name=f'repr-{e}', entry=e) for e in _entries()]
    cs.append(dict(kind='entry', name='repr-twin', entry='aperture_photometry',
                   twin=True))
    cs.append(dict(kind='pq', name='process_quantities'))
    cs.append(dict(kind='symlayout', name='symbolic-layout'))
    return cs


def replay(f):
    p = f['params']
    if p['kind'] == 'entry':
        msg = _check(p['entry'], p['rep'])
        return msg is not None, str(msg)
    if p['kind'] == 'pq':
        msg = _pq_check(tuple(p['kinds']))
        return msg is not None, str(msg)
    return False, 'symbolic layout finding needs the symbolic run'
