"""C09 - results never depend on access order or on earlier calls.

One harness shape: a solver-chosen *history* on one instance vs. a fresh
instance asked the same final question.  For Background2D the
filter_threshold is additionally a symbolic real, so every filtering regime
(the real code compares it with the concrete mesh) is a solver case.
"""
import warnings

import numpy as np
import z3

from ..sym import Stats, explore

META = dict(
    functions=['photutils.background.background_2d:Background2D.background_mesh',
               'photutils.background.background_2d:Background2D.background_rms_mesh',
               'photutils.background.background_2d:Background2D._filter_grid',
               'photutils.background.background_2d:Background2D._selective_filter',
               'photutils.profiles.core:ProfileBase.normalize',
               'photutils.profiles.core:ProfileBase.unnormalize',
               'photutils.profiles.radial_profile:RadialProfile.data_profile',
               'photutils.aperture.attributes:ApertureAttribute.__set__',
               'photutils.aperture.attributes:PixelPositions.__set__',
               'photutils.aperture.core:Aperture._lazyproperties',
               'photutils.psf.photometry:PSFPhotometry._prepare_init_params',
               'photutils.psf.photometry:PSFPhotometry._reset_results',
               'photutils.detection.starfinder:StarFinder.find_stars',
               'photutils.detection.daofinder:DAOStarFinder.find_stars'],
    bounds=('Background2D: every ordered selection of <=3 (thorough 4) reads '
            'out of 8 attributes x symbolic filter_threshold (all regimes '
            'below/between/above the mesh values) x {zoom, IDW} interpolator '
            'x {no exclusion, masked box with exclude_percentile}; profiles: '
            'all histories of length <=4 (thorough 5) over {read profile, '
            'profile_error, data_profile, normalize(max), normalize(sum), '
            'unnormalize} for RadialProfile and CurveOfGrowth; apertures: '
            'histories of <=3 attribute assignments interleaved with reads '
            'for 6 aperture classes; PSFPhotometry / star finders: call '
            'histories of length 2 (thorough 3) over 4 request kinds'),
    assumptions=['histories are finite-domain solver variables enumerated '
                 'exhaustively; data are concrete scenes; comparison with a '
                 'fresh object is exact (arrays) or rtol 1e-10 where '
                 'normalisation factors are multiplied back'],
    stubs=[],
    outside=['Ellipse.fit_image repeated calls (see C20 check)',
             'GriddedPSFModel evaluation history (see C13 check)',
             'histories longer than the bound'],
    min_obligations=100,
)

# ---------------------------------------------------------------- Background2D
BKG_ATTRS = ['background', 'background_rms', 'background_mesh',
             'background_rms_mesh', 'background_median',
             'background_rms_median', 'npixels_mesh', 'npixels_map']


def _bkg_data():
    rng = np.random.default_rng(0)
    data = rng.normal(10, 1, (20, 24))
    data[5:10, 6:12] += 30
    data[15:20, 18:24] += 8
    return data


def _mk_bkg(variant, thr):
    from photutils.background import (Background2D, BkgIDWInterpolator,
                                      BkgZoomInterpolator)
    data = _bkg_data()
    kw = {}
    if variant['mask']:
        m = np.zeros(data.shape, bool)
        m[0:5, 0:5] = True      # most of one box -> excluded mesh
        kw = dict(mask=m, exclude_percentile=50.0)
    interp = BkgIDWInterpolator() if variant['idw'] else BkgZoomInterpolator()
    return Background2D(data, (5, 6), filter_size=variant['fs'],
                        filter_threshold=thr, interpolator=interp, **kw)


def _val(x):
    return np.array(getattr(x, 'value', x), dtype=float)


def _run_bkg(case):
    from .. import facade
    facade.install()
    variant = case['variant']
    L = case['len']
    cnt = dict(n=0)
    samples = []

    def fn(ctx):
        use_thr = ctx.flag('use_threshold')
        thr = ctx.real('thr') if use_thr else None
        order = []
        pool = list(BKG_ATTRS)
        first = case.get('first')
        for k in range(L):
            opts = ['-'] + [a for a in pool if a not in order]
            if k == 0 and first is not None:
                opts = [first]
            a = ctx.choice(f'read{k}', opts)
            if a == '-':
                break
            order.append(a)
        if not order:
            return
        with warnings.catch_warnings():
            warnings.simplefilter('ignore')
            b = _mk_bkg(variant, thr)
            got = {}
            params = dict(kind='bkg', variant=variant, order=order,
                          use_thr=use_thr)
            for a in order:
                try:
                    got[a] = _val(getattr(b, a))
                except Exception as e:  # noqa
                    ctx.stats.obligations += 1
                    ctx.stats.sat += 1
                    ctx.find(f'bkg:raise:{a}:after:'
                             f'{",".join(order[:order.index(a)])}',
                             f'reading {a} after {order[:order.index(a)]} '
                             f'raised {e!r}', ctx.witness(), params=params)
                    return
            # each value must equal what a fresh instance gives
            for a in order:
                ctx.stats.obligations += 1
                cnt['n'] += 1
                fresh = _val(getattr(_mk_bkg(variant, thr), a))
                if got[a].shape == fresh.shape and np.array_equal(
                        got[a], fresh, equal_nan=True):
                    ctx.stats.unsat += 1
                else:
                    ctx.stats.sat += 1
                    ctx.find(f'bkg:order:{a}:after:'
                             f'{",".join(order[:order.index(a)])}',
                             f'{a} read in order {order} differs from a '
                             f'fresh instance (max abs diff '
                             f'{np.nanmax(np.abs(got[a] - fresh)):.3g})',
                             ctx.witness(), params=params)
                    return
        if len(samples) < 2:
            samples.append(dict(order=order, witness=ctx.witness()))

    _, st, f = explore(fn)
    return dict(stats=st, findings=f, samples=samples, nontrivial=cnt['n'])


def _replay_bkg(p, w):
    thr = float(w['thr']) if p['use_thr'] else None
    with warnings.catch_warnings():
        warnings.simplefilter('ignore')
        b = _mk_bkg(p['variant'], thr)
        for a in p['order']:
            try:
                v = _val(getattr(b, a))
            except Exception as e:  # noqa
                return True, f'filter_threshold={thr}: reading {a} in order ' \
                             f'{p["order"]} raised {e!r}'
            fresh = _val(getattr(_mk_bkg(p['variant'], thr), a))
            if not np.array_equal(v, fresh, equal_nan=True):
                return True, f'filter_threshold={thr}: {a} in order ' \
                             f'{p["order"]} differs from fresh'
    return False, 'no difference'


# ---------------------------------------------------------------- profiles
PROF_OPS = ['profile', 'profile_error', 'data_profile', 'norm-max',
            'norm-sum', 'unnorm', 'data_radius', 'radius', 'area']
PROF_UNSCALED = ('data_radius', 'radius', 'area')


def _mk_prof(cls):
    from astropy.modeling.models import Gaussian2D
    from photutils.profiles import CurveOfGrowth, RadialProfile
    yy, xx = np.mgrid[:21, :23]
    data = Gaussian2D(7.0, 10.3, 9.6, 2.1, 2.6, theta=0.4)(xx, yy) + 0.05
    err = (0.3 + 0.004 * np.arange(data.shape[1])[None, :] + 0.006 * np.arange(data.shape[0])[:, None])
    if cls == 'rp':
        return RadialProfile(data, (10.3, 9.6), np.array([0, 1, 2.5, 4, 6.]),
                             error=err)
    return CurveOfGrowth(data, (10.3, 9.6), np.array([0.7, 1.5, 3, 5.]),
                         error=err)


def _prof_check(cls, hist, twin=False):
    base = _mk_prof(cls)
    ref = dict(profile=np.array(base.profile),
               profile_error=np.array(base.profile_error))
    if cls == 'rp':
        ref['data_profile'] = np.array(base.data_profile)
    # arrays that the normalisation must leave alone
    fixed = dict(radius=np.array(base.radius), area=np.array(base.area))
    if cls == 'rp':
        fixed['data_radius'] = np.array(base.data_radius)
    obj = _mk_prof(cls)
    norm = 1.0
    with warnings.catch_warnings():
        warnings.simplefilter('ignore')
        for k, op in enumerate(hist):
            if op == 'norm-max':
                cur = ref['profile'] / norm
                norm *= np.nanmax(cur)
                obj.normalize('max')
            elif op == 'norm-sum':
                cur = ref['profile'] / norm
                norm *= np.nansum(cur)
                obj.normalize('sum')
            elif op == 'unnorm':
                obj.unnormalize()
                norm = 1.0
            else:
                if op in ('data_profile', 'data_radius') and cls != 'rp':
                    continue
                v = np.array(getattr(obj, op))
                if op in PROF_UNSCALED:
                    if not np.allclose(v, fixed[op], rtol=1e-12, atol=0):
                        return f'{op} after {hist[:k]} changed'
                    continue
                exp = ref[op] / (1.0 if twin else norm)
                if not np.allclose(v, exp, rtol=1e-10, atol=0):
                    return (f'{op} after {hist[:k]} = {v[:3]}... expected '
                            f'fresh/normalisation = {exp[:3]}...')
            if not np.isclose(obj.normalization_value, norm, rtol=1e-10):
                return (f'normalization_value {obj.normalization_value} != '
                        f'{norm} after {hist[:k + 1]}')
        # final state: every array consistent
        for a in ref:
            v = np.array(getattr(obj, a))
            if not np.allclose(v, ref[a] / norm, rtol=1e-10, atol=0):
                return f'final {a} after {hist} inconsistent with fresh/norm'
    return None


def _run_prof(case):
    cnt = dict(n=0)
    samples = []

    def fn(ctx):
        hist = []
        for k in range(case['len']):
            op = ctx.choice(f'op{k}', (['-'] if k else []) + PROF_OPS)
            if op == '-':
                break
            hist.append(op)
        ctx.stats.obligations += 1
        cnt['n'] += 1
        msg = _prof_check(case['cls'], hist, twin=bool(case.get('twin')))
        if msg is None:
            ctx.stats.unsat += 1
        else:
            ctx.stats.sat += 1
            site = msg.split()[0]
            ctx.find(f'profile:{case["cls"]}:{site}', msg, ctx.witness(),
                     params=dict(kind='prof', cls=case['cls'], hist=hist))
        if len(samples) < 2:
            samples.append(dict(cls=case['cls'], hist=hist))

    _, st, f = explore(fn)
    return dict(stats=st, findings=f, samples=samples, nontrivial=cnt['n'])


# ---------------------------------------------------------------- apertures
def _aper_specs():
    from photutils.aperture import (CircularAnnulus, CircularAperture,
                                    EllipticalAnnulus, EllipticalAperture,
                                    RectangularAnnulus, RectangularAperture)
    P1 = (3.2, 4.7)
    P3 = [(3.2, 4.7), (10.0, 2.5), (-1.0, 7.0)]
    L1 = [(8.5, 1.5)]       # one position as a list: not a scalar aperture
    return {
        'circ': (CircularAperture, dict(positions=P1, r=2.0),
                 dict(positions=[P3, (8.5, 1.5), L1], r=[3.7, 0.6])),
        'ell': (EllipticalAperture, dict(positions=P1, a=3.0, b=1.5,
                                         theta=0.3),
                dict(positions=[P3, L1, (8.5, 1.5)], a=[4.5], b=[0.7], theta=[1.2, -0.4])),
        'rect': (RectangularAperture, dict(positions=P1, w=3.0, h=1.5,
                                           theta=0.3),
                 dict(positions=[P3, L1, (8.5, 1.5)], w=[5.5], h=[2.5], theta=[1.2])),
        'cann': (CircularAnnulus, dict(positions=P1, r_in=1.0, r_out=2.5),
                 dict(positions=[P3, L1, (8.5, 1.5)], r_in=[2.0], r_out=[4.0])),
        'eann': (EllipticalAnnulus, dict(positions=P1, a_in=1.0, a_out=3.0,
                                         b_out=2.0, theta=0.2),
                 dict(positions=[P3, L1, (8.5, 1.5)], a_out=[4.0], b_out=[1.2],
                      theta=[0.9])),
        'rann': (RectangularAnnulus, dict(positions=P1, w_in=1.0, w_out=3.0,
                                          h_out=2.0, theta=0.2),
                 dict(positions=[P3, L1, (8.5, 1.5)], w_out=[4.0], h_out=[3.1],
                      theta=[0.9])),
    }


APER_READS = ['bbox', 'area', 'shape', 'isscalar', 'mask', 'edges', 'len']


def _aper_obs(ap):
    out = {}
    bb = ap.bbox
    out['bbox'] = [b.extent for b in (bb if isinstance(bb, list) else [bb])]
    out['area'] = float(ap.area)
    out['shape'] = tuple(ap.shape)
    out['isscalar'] = bool(ap.isscalar)
    m = ap.to_mask('center')
    m = m if isinstance(m, list) else [m]
    out['mask'] = [(x.bbox.extent, x.data.tolist()) for x in m]
    out['edges'] = np.asarray(ap._centered_edges).tolist()
    try:
        out['len'] = len(ap)
    except TypeError:
        out['len'] = None
    return out


def _aper_read(ap, what):
    if what == 'mask':
        ap.to_mask('center')
    elif what == 'edges':
        ap._centered_edges
    elif what == 'len':
        try:
            len(ap)
        except TypeError:
            pass
    else:
        getattr(ap, what)


def _aper_check(name, hist):
    cls, init, pool = _aper_specs()[name]
    ap = cls(**dict(init))
    # the full attribute set (incl. defaults derived at construction, e.g.
    # b_in of an elliptical annulus)
    kw = {p: getattr(ap, p) for p in ap._params}
    for step in hist:
        if step[0] == 'read':
            _aper_read(ap, step[1])
        else:
            _, attr, k = step
            val = pool[attr][k]
            try:
                setattr(ap, attr, val)
                kw[attr] = val
            except ValueError:
                # rejected assignment (e.g. r_out <= r_in): state unchanged
                try:
                    cls(**dict(kw, **{attr: val}))
                    return f'set {attr}={val} rejected but constructor ' \
                           f'accepts it'
                except ValueError:
                    pass
    try:
        got = _aper_obs(ap)
    except Exception as e:  # noqa
        return f'observation after {hist} raised {e!r}'
    exp = _aper_obs(cls(**kw))
    for k in exp:
        if got[k] != exp[k]:
            return (f'{k} after {hist} = {str(got[k])[:80]} but a fresh '
                    f'aperture with the same attributes gives '
                    f'{str(exp[k])[:80]}')
    return None


def _run_aper(case):
    name = case['aper']
    cls, init, pool = _aper_specs()[name]
    steps = [('read', r) for r in APER_READS] + [
        ('set', a, k) for a in pool for k in range(len(pool[a]))]
    cnt = dict(n=0)
    samples = []

    def fn(ctx):
        hist = []
        for k in range(case['len']):
            s = ctx.choice(f's{k}', (['-'] if k else []) + steps)
            if s == '-':
                break
            hist.append(s)
        if not any(s[0] == 'set' for s in hist):
            return
        ctx.stats.obligations += 1
        cnt['n'] += 1
        msg = _aper_check(name, hist)
        if msg is None:
            ctx.stats.unsat += 1
        else:
            ctx.stats.sat += 1
            ctx.find(f'aperture:{name}:{msg.split()[0]}', msg, ctx.witness(),
                     params=dict(kind='aper', aper=name,
                                 hist=[list(s) for s in hist]))
        if len(samples) < 2:
            samples.append(dict(aper=name, hist=hist))

    _, st, f = explore(fn)
    return dict(stats=st, findings=f, samples=samples, nontrivial=cnt['n'])


# ---------------------------------------------------------------- PSF photometry
_psf_cache = {}


def _psf_scene(which):
    from astropy.table import QTable
    from photutils.psf import CircularGaussianPRF, make_psf_model_image
    if which in _psf_cache:
        return _psf_cache[which]
    model = CircularGaussianPRF(fwhm=2.6)
    if which == 'A':
        src = QTable(dict(x_0=[8.0, 11.2, 22.0, 24.5], y_0=[9.0, 10.5, 8.0,
                                                            20.0],
                          flux=[100., 200., 300., 400.]))
    else:
        src = QTable(dict(x_0=[6.0, 20.0, 22.7], y_0=[20.0, 14.0, 15.8],
                          flux=[250., 120., 330.]))
    src['fwhm'] = 2.6
    from photutils.datasets import make_model_image
    data = make_model_image((30, 32), model, src, model_shape=(11, 11))
    _psf_cache[which] = (data, src)
    return data, src


REQS = ['A-finder', 'A-init', 'A-init-gid', 'B-finder', 'B-init']


def _psf_obj(kind):
    from photutils.detection import DAOStarFinder
    from photutils.psf import (CircularGaussianPRF, IterativePSFPhotometry,
                               PSFPhotometry, SourceGrouper)
    model = CircularGaussianPRF(fwhm=2.6)
    finder = DAOStarFinder(5.0, 2.6)
    if kind == 'iter':
        return IterativePSFPhotometry(model, (5, 5), finder=finder,
                                      grouper=SourceGrouper(4.0),
                                      aperture_radius=3, maxiters=1)
    return PSFPhotometry(model, (5, 5), finder=finder,
                         grouper=SourceGrouper(4.0), aperture_radius=3)


def _psf_call(obj, req):
    from astropy.table import QTable
    which, how = req.split('-', 1)
    data, src = _psf_scene(which)
    init = None
    if how.startswith('init'):
        init = QTable(dict(x=np.array(src['x_0']) + 0.2,
                           y=np.array(src['y_0']) - 0.1))
        if how == 'init-gid':
            init['group_id'] = np.arange(len(src)) % 2 + 1
    with warnings.catch_warnings():
        warnings.simplefilter('ignore')
        tbl = obj(data, init_params=init)
    out = {}
    for c in ('id', 'group_id', 'group_size', 'x_fit', 'y_fit', 'flux_fit',
              'npixfit', 'flags'):
        if c in tbl.colnames:
            out[c] = np.array(tbl[c], dtype=float)
    g = obj.grouper if hasattr(obj, 'grouper') else obj._psfphot.grouper
    out['grouper_is_set'] = g is not None
    return out


def _psf_check(kind, hist):
    obj = _psf_obj(kind)
    for k, req in enumerate(hist):
        try:
            got = _psf_call(obj, req)
        except Exception as e:  # noqa
            return f'call {k} ({req}) after {hist[:k]} raised {e!r}'
        exp = _psf_call(_psf_obj(kind), req)
        for c in exp:
            if c == 'grouper_is_set':
                continue
            if c not in got or got[c].shape != exp[c].shape or not \
                    np.allclose(got[c], exp[c], rtol=1e-9, atol=1e-9,
                                equal_nan=True):
                return (f'column {c} of call {k} ({req}) after {hist[:k]} '
                        f'= {got.get(c)} but a fresh object gives {exp[c]}')
        if not got['grouper_is_set']:
            return f'grouper configuration lost after call {k} ({req})'
    return None


def _run_psf(case):
    cnt = dict(n=0)
    samples = []

    def fn(ctx):
        hist = [ctx.choice(f'r{k}', case.get('reqs', REQS))
                for k in range(case['len'])]
        if case.get('first'):
            if hist[0] != case['first']:
                return
        ctx.stats.obligations += 1
        cnt['n'] += 1
        msg = _psf_check(case['obj'], hist)
        if msg is None:
            ctx.stats.unsat += 1
        else:
            ctx.stats.sat += 1
            ctx.find(f'psf:{case["obj"]}:{msg.split()[0]}:{hist[0]}', msg,
                     ctx.witness(), params=dict(kind='psf', obj=case['obj'],
                                                hist=hist))
        if len(samples) < 2:
            samples.append(dict(obj=case['obj'], hist=hist))

    _, st, f = explore(fn)
    return dict(stats=st, findings=f, samples=samples, nontrivial=cnt['n'])


# ---------------------------------------------------------------- star finders
def _finder_obj(kind, brightest=None):
    from photutils.detection import DAOStarFinder, IRAFStarFinder, StarFinder
    if kind == 'dao':
        return DAOStarFinder(5.0, 2.6, brightest=brightest)
    if kind == 'iraf':
        return IRAFStarFinder(5.0, 2.6, brightest=brightest)
    yy, xx = np.mgrid[-3:4, -3:4]
    kern = 2.5 * np.exp(-(xx ** 2 + yy ** 2) / (2 * 1.1 ** 2))
    return StarFinder(5.0, kern, brightest=brightest)


def _finder_call(obj, req):
    data, _ = _psf_scene(req[0])
    mask = None
    if req.endswith('m'):
        mask = np.zeros(data.shape, bool)
        mask[5:13, 5:12] = True
    with warnings.catch_warnings():
        warnings.simplefilter('ignore')
        t = obj(data, mask=mask)
    if t is None:
        return None
    return {c: np.array(t[c], dtype=float) for c in t.colnames}


def _finder_check(kind, hist, brightest=None):
    obj = _finder_obj(kind, brightest)
    for k, req in enumerate(hist):
        got = _finder_call(obj, req)
        exp = _finder_call(_finder_obj(kind, brightest), req)
        if (got is None) != (exp is None):
            return f'call {k} ({req}) None-ness differs from fresh'
        if got is None:
            continue
        for c in exp:
            if got[c].shape != exp[c].shape or not np.array_equal(
                    got[c], exp[c], equal_nan=True):
                return (f'column {c} of call {k} ({req}) after {hist[:k]} '
                        f'differs from a fresh finder')
    return None


def _run_finder(case):
    cnt = dict(n=0)
    samples = []

    def fn(ctx):
        kind = ctx.choice('finder', ['dao', 'iraf', 'star'])
        hist = [ctx.choice(f'r{k}', ['A', 'Am', 'B', 'Bm'])
                for k in range(case['len'])]
        # brightest=3: the scenes hold 2..5 detectable sources, so the
        # selection is active in some calls of a history and idle in others
        br = ctx.choice('brightest', [None, 3])
        ctx.stats.obligations += 1
        cnt['n'] += 1
        msg = _finder_check(kind, hist, br)
        if msg is None:
            ctx.stats.unsat += 1
        else:
            ctx.stats.sat += 1
            ctx.find(f'finder:{kind}:{msg.split()[0]}', msg, ctx.witness(),
                     params=dict(kind='finder', finder=kind, hist=hist,
                                 brightest=br))
        if len(samples) < 2:
            samples.append(dict(finder=kind, hist=hist))

    _, st, f = explore(fn)
    return dict(stats=st, findings=f, samples=samples, nontrivial=cnt['n'])


def run_case(case):
    return dict(bkg=_run_bkg, prof=_run_prof, aper=_run_aper, psf=_run_psf,
                finder=_run_finder)[case['kind']](case)


def cases(tier, seed):
    cs = []
    L = 3 if tier == 'quick' else 4
    variants = [dict(mask=False, idw=False, fs=3),
                dict(mask=True, idw=False, fs=3),
                dict(mask=True, idw=True, fs=(3, 1))]
    if tier == 'thorough':
        variants.append(dict(mask=False, idw=True, fs=3))
        variants.append(dict(mask=False, idw=False, fs=1))
    for vi, v in enumerate(variants):
        for a in BKG_ATTRS:
            if tier == 'quick' and vi > 0 and a not in (
                    'background', 'background_rms', 'background_mesh',
                    'background_rms_mesh'):
                continue
            cs.append(dict(kind='bkg', name=f'bkg-v{vi}-first:{a}',
                           variant=v, len=L if vi == 0 else min(L, 3),
                           first=a))
    for cls in ('rp', 'cog'):
        cs.append(dict(kind='prof', name=f'profile-{cls}', cls=cls,
                       len=4 if tier == 'quick' else 5))
    cs.append(dict(kind='prof', name='profile-twin', cls='rp', len=3,
                   twin=True))
    for name in _aper_specs():
        cs.append(dict(kind='aper', name=f'aperture-{name}', aper=name,
                       len=3 if tier == 'quick' else 4))
    for first in REQS:
        cs.append(dict(kind='psf', name=f'psf-basic-{first}', obj='basic',
                       len=2, first=first))
    cs.append(dict(kind='psf', name='psf-iter', obj='iter', len=2,
                   reqs=['A-finder', 'A-init-gid', 'B-init']))
    cs.append(dict(kind='finder', name='finders', len=2))
    if tier == 'thorough':
        for first in REQS:
            cs.append(dict(kind='psf', name=f'psf-basic3-{first}',
                           obj='basic', len=3, first=first,
                           reqs=['A-finder', 'A-init-gid', 'B-finder']))
        cs.append(dict(kind='finder', name='finders3', len=3))
    return cs


def replay(f):
    p = f['params']
    k = p['kind']
    if k == 'bkg':
        return _replay_bkg(p, f['witness'])
    if k == 'prof':
        msg = _prof_check(p['cls'], p['hist'])
    elif k == 'aper':
        msg = _aper_check(p['aper'], [tuple(s) for s in p['hist']])
    elif k == 'psf':
        msg = _psf_check(p['obj'], p['hist'])
    else:
        msg = _finder_check(p['finder'], p['hist'], p.get('brightest'))
    return msg is not None, str(msg)
