"""C01 - aperture masks and bounding boxes.

Groups (DESIGN 3/C01):
  bbox     BoundingBox.from_float / get_overlap_slices / union / intersection
  extent   _xy_extents of circle / ellipse / rectangle (NRA lemma, rotation as
           a symbolic point on the unit circle)
  edges    _bbox/_centered_edges registration; annulus = outer - inner;
           _translate_mask_mode; to_mask wiring (kernel stubbed by recorder)
  kernel   PYX: *_overlap_single_subpixel of the three .pyx files, transliterated
           from the current /repo text and executed symbolically
  tv       translation validation of the transliteration vs. the compiled .so
"""
import math
from fractions import Fraction
import os
import warnings

import numpy as np
import z3

from ..sym import (Abort, OutOfModel, Stats, SymArray, SymBool, SymInt,
                   SymReal, const, explore, poly_equal, same, term)

META = dict(
    functions=['photutils.aperture.bounding_box:BoundingBox.from_float',
               'photutils.aperture.bounding_box:BoundingBox.get_overlap_slices',
               'photutils.aperture.bounding_box:BoundingBox.union',
               'photutils.aperture.bounding_box:BoundingBox.intersection',
               'photutils.aperture.core:PixelAperture._bbox',
               'photutils.aperture.core:PixelAperture._centered_edges',
               'photutils.aperture.core:PixelAperture._translate_mask_mode',
               'photutils.aperture.circle:CircularMaskMixin.to_mask',
               'photutils.aperture.ellipse:EllipticalMaskMixin.to_mask',
               'photutils.aperture.ellipse:EllipticalMaskMixin._calc_extents',
               'photutils.aperture.rectangle:RectangularMaskMixin.to_mask',
               'photutils.aperture.rectangle:RectangularMaskMixin._calc_extents',
               'photutils/geometry/circular_overlap.pyx:',
               'photutils/geometry/elliptical_overlap.pyx:',
               'photutils/geometry/rectangular_overlap.pyx:',
               'photutils/geometry/core.pyx:'],
    bounds=('from_float: all real rectangles with |coordinates| < 4 (integer '
            'results concretised exhaustively); get_overlap_slices / union / '
            'intersection: all integer boxes with corners in [-4,5] against '
            'all image shapes in [1,4]^2; extents: all sizes > 0 and all '
            'rotations (symbolic point on the unit circle); subpixel kernels: '
            'symbolic pixel corner / sizes / rotation, subpixels 1..3 '
            '(thorough 4; rotated shapes 1..2, thorough 3); translation '
            'validation on 400 (thorough 3000) concrete grids; public-mask '
            'lattice: 6 shapes x centres {0,.25,.5,-.3}x{0,.5,-.37} x sizes '
            '{.43,1.07,2.51,3.7} x ratios {1,.6,.25} x 5 angles x {exact, '
            'center, subpixel 2, subpixel 5} + 13 degenerate configurations; '
            'symbolic zero-result harness of the real triangle routine: '
            'symbolic pixel position, 4 concrete axis pairs, theta = 0'),
    assumptions=['floats as reals: the float64 sliver of from_float '
                 '(x+0.5 rounding onto an integer) is outside the claim '
                 '(DESIGN 2.3)', 'sin/cos modelled as a point on the unit '
                 'circle', 'pixel grid has unit spacing (as produced by '
                 '_centered_edges)',
                 'Cython is not installed: the .pyx text is transliterated '
                 'and cross-validated against the compiled kernels; an edited '
                 '.pyx that no longer matches the .so is reported as a '
                 'harness error, not as pass'],
    stubs=['np.cos/np.sin/math.cos/math.sin of the symbolic angle',
           'photutils.geometry *_overlap_grid recorder in the edges group',
           '.pyx -> Python transliteration (vf/pyx2py.py)'],
    outside=['that the arc terms of the exact circle/ellipse kernels equal '
             'true circular-segment areas (asin) for symbolic inputs: the '
             'analytic-area sum and the [0,1] range of exact weights are '
             'decided on the public-mask lattice only', 'subpixels > 5',
             'float rounding'],
    min_obligations=50,
)

REPO = os.environ.get('VERIF_REPO', '/repo')


# ---------------------------------------------------------------- bbox group
def _run_from_float(case):
    from .. import facade
    facade.install()
    from photutils.aperture import BoundingBox
    cnt = dict(n=0)
    samples = []
    twin = case.get('twin')

    def fn(ctx):
        x0, x1, y0, y1 = (ctx.real(n) for n in ('x0', 'x1', 'y0', 'y1'))
        ctx.assume(z3.And(x0.e <= x1.e, y0.e <= y1.e, x0.e > -4, x1.e < 4,
                          y0.e > -4, y1.e < 4))
        b = BoundingBox.from_float(x0, x1, y0, y1)
        cnt['n'] += 1
        h = z3.Q(1, 2)
        # pixel i covers [i-1/2, i+1/2); minimal box containing [x0, x1]
        lo = z3.Q(1, 4) if twin else h
        post = z3.And(b.ixmin - h <= x0.e, x0.e < b.ixmin + lo,
                      b.ixmax - z3.Q(3, 2) < x1.e, x1.e <= b.ixmax - h,
                      b.iymin - h <= y0.e, y0.e < b.iymin + h,
                      b.iymax - z3.Q(3, 2) < y1.e, y1.e <= b.iymax - h)
        r, m = ctx.holds(post, 'from_float')
        if r == 'sat':
            ctx.find('bbox:from_float', 'from_float is not the minimal '
                     'integer box containing the rectangle', ctx.witness(m),
                     params=dict(kind='from_float'))
        if len(samples) < 2:
            samples.append(dict(box=[b.ixmin, b.ixmax, b.iymin, b.iymax],
                                witness=ctx.witness()))

    _, st, f = explore(fn)
    return dict(stats=st, findings=f, samples=samples, nontrivial=cnt['n'])


def _slices_check(box, shape):
    """Concrete oracle comparison; box = (ixmin, ixmax, iymin, iymax)."""
    from photutils.aperture import BoundingBox
    ixmin, ixmax, iymin, iymax = box
    ny, nx = shape
    bb = BoundingBox(ixmin, ixmax, iymin, iymax)
    sl, ss = bb.get_overlap_slices(shape)
    common = [(y, x) for y in range(max(iymin, 0), min(iymax, ny))
              for x in range(max(ixmin, 0), min(ixmax, nx))]
    if not common:
        if sl is not None or ss is not None:
            return f'no common pixel but slices {sl}, {ss}'
        return None
    if sl is None or ss is None:
        return 'common pixels exist but None returned'
    big = np.zeros(shape, int)
    big[sl] += 1
    exp = np.zeros(shape, int)
    for y, x in common:
        exp[y, x] = 1
    if not np.array_equal(big, exp):
        return f'slices_large {sl} do not select exactly the common pixels'
    small = np.arange((iymax - iymin) * (ixmax - ixmin)).reshape(
        iymax - iymin, ixmax - ixmin)
    ref = np.array([[(y - iymin) * (ixmax - ixmin) + (x - ixmin)
                     for x in range(max(ixmin, 0), min(ixmax, nx))]
                    for y in range(max(iymin, 0), min(iymax, ny))])
    got = small[ss]
    if got.shape != ref.shape or not np.array_equal(got, ref):
        return f'slices_small {ss} are not slices_large shifted by the origin'
    return None


def _run_slices(case):
    cnt = dict(n=0)
    samples = []

    def fn(ctx):
        x0 = ctx.int('ixmin', *case['xr'])
        w = ctx.int('w', 1, 4)
        y0 = ctx.int('iymin', -4, 4)
        h = ctx.int('h', 1, 4)
        ny = ctx.int('ny', 1, 4)
        nx = ctx.int('nx', 1, 4)
        vals = [v.__index__() for v in (x0, w, y0, h, ny, nx)]
        x0, w, y0, h, ny, nx = vals
        box = (x0, x0 + w, y0, y0 + h)
        ctx.stats.obligations += 1
        cnt['n'] += 1
        msg = _slices_check(box, (ny, nx))
        if msg is None:
            ctx.stats.unsat += 1
        else:
            ctx.stats.sat += 1
            ctx.find('bbox:overlap_slices:' + msg.split()[0], f'box {box} '
                     f'shape {(ny, nx)}: {msg}', ctx.witness(),
                     params=dict(kind='slices', box=box, shape=[ny, nx]))
        if len(samples) < 2:
            samples.append(dict(box=box, shape=[ny, nx]))

    _, st, f = explore(fn)
    return dict(stats=st, findings=f, samples=samples, nontrivial=cnt['n'])


def _setops_check(a, b):
    from photutils.aperture import BoundingBox
    A, B = BoundingBox(*a), BoundingBox(*b)
    u = A.union(B)
    if (u.ixmin, u.ixmax, u.iymin, u.iymax) != (
            min(a[0], b[0]), max(a[1], b[1]), min(a[2], b[2]),
            max(a[3], b[3])):
        return 'union is not the smallest box containing both'
    i = A.intersection(B)
    px = lambda q: {(y, x) for y in range(q[2], q[3])  # noqa
                    for x in range(q[0], q[1])}
    common = px(a) & px(b)
    if i is None:
        if common:
            return 'intersection None although pixels are shared'
    else:
        got = px((i.ixmin, i.ixmax, i.iymin, i.iymax))
        if got != common:
            return 'intersection is not the set of shared pixels'
    if A.shape != (a[3] - a[2], a[1] - a[0]):
        return 'shape'
    if A.extent != (a[0] - 0.5, a[1] - 0.5, a[2] - 0.5, a[3] - 0.5):
        return 'extent'
    if A.center != ((a[2] + a[3] - 1) / 2, (a[0] + a[1] - 1) / 2):
        return 'center'
    return None


def _run_setops(case):
    cnt = dict(n=0)
    samples = []

    def fn(ctx):
        v = [ctx.int(n, -1, 2).__index__() for n in ('ax', 'ay', 'bx', 'by')]
        if case.get('ax') is not None and v[0] != case['ax']:
            return
        s = [ctx.int(n, 1, 3).__index__() for n in ('aw', 'ah', 'bw', 'bh')]
        a = (v[0], v[0] + s[0], v[1], v[1] + s[1])
        b = (v[2], v[2] + s[2], v[3], v[3] + s[3])
        ctx.stats.obligations += 1
        cnt['n'] += 1
        msg = _setops_check(a, b)
        if msg is None:
            ctx.stats.unsat += 1
        else:
            ctx.stats.sat += 1
            ctx.find('bbox:setops:' + msg.split()[0], f'{a} {b}: {msg}',
                     ctx.witness(), params=dict(kind='setops', a=a, b=b))
        if len(samples) < 2:
            samples.append(dict(a=a, b=b))

    _, st, f = explore(fn)
    return dict(stats=st, findings=f, samples=samples, nontrivial=cnt['n'])


# ---------------------------------------------------------------- extents
class _Angle:
    """Stand-in for a Quantity angle: to(unit).value is a marker whose
    cos/sin are a symbolic point on the unit circle."""

    def __init__(self, c, s):
        self.c, self.s = c, s

    def to(self, unit):
        return self

    @property
    def value(self):
        return self

    def __neg__(self):
        return _Angle(self.c, -self.s)


def _install_trig():
    from .. import facade
    facade.install()
    import photutils.aperture.rectangle as pr

    class _M:     # math module look-alike for the rectangle module
        def __getattr__(self, k):
            return getattr(math, k)

        @staticmethod
        def cos(x):
            return x.c if isinstance(x, _Angle) else math.cos(x)

        @staticmethod
        def sin(x):
            return x.s if isinstance(x, _Angle) else math.sin(x)
    if not isinstance(pr.math, _M):
        pr.math = _M()
    if getattr(np.cos, '_vf', False):
        return
    oc, os_ = np.cos, np.sin

    class P:
        def __init__(self, f, orig):
            self._f, self._orig, self._vf = f, orig, True

        def __call__(self, x, *a, **k):
            if isinstance(x, _Angle):
                return self._f(x)
            return self._orig(x, *a, **k)

        def __getattr__(self, k):
            return getattr(self._orig, k)
    np.cos = P(lambda a: a.c, oc)
    np.sin = P(lambda a: a.s, os_)


def _run_extent(case):
    _install_trig()
    from photutils.aperture.ellipse import EllipticalMaskMixin
    from photutils.aperture.rectangle import RectangularMaskMixin
    shape = case['shape']
    twin = case.get('twin')
    cnt = dict(n=0)
    samples = []

    def fn(ctx):
        a, b = ctx.real('a'), ctx.real('b')
        c, s = ctx.real('c'), ctx.real('s')
        ctx.assume(z3.And(a.e > 0, b.e > 0, c.e * c.e + s.e * s.e == 1))
        th = _Angle(c, s)
        if shape == 'ellipse':
            ex, ey = EllipticalMaskMixin._calc_extents(a, b, th)
        else:
            ex, ey = RectangularMaskMixin._calc_extents(a, b, th)
        cnt['n'] += 1
        side = [cc for _, cc in ctx.side]
        # universally quantified support property, negated:
        #   exists a point of the shape with |x| > ex  (or |y| > ey)
        u, v = ctx.fresh('u'), ctx.fresh('v')
        if shape == 'ellipse':
            # points of the ellipse: (a p, b q) with p^2 + q^2 <= 1
            inshape = u * u + v * v <= 1
            X = a.e * u * c.e - b.e * v * s.e
            Y = a.e * u * s.e + b.e * v * c.e
        else:   # full width a, full height b
            inshape = z3.And(2 * u <= a.e, -2 * u <= a.e, 2 * v <= b.e,
                             -2 * v <= b.e)
            X = u * c.e - v * s.e
            Y = u * s.e + v * c.e
        exe, eye = term(ex), term(ey)
        if twin:
            exe = exe - z3.Q(1, 100)
        ctx.stats.obligations += 1
        sol = ctx.solver
        sol.push()
        sol.add(*side)
        sol.add(inshape, z3.Or(X > exe, -X > exe, Y > eye, -Y > eye))
        r = ctx._check()
        w = ctx.witness(sol.model()) if r == z3.sat else None
        sol.pop()
        if r == z3.unsat:
            ctx.stats.unsat += 1
        elif r == z3.sat:
            ctx.stats.sat += 1
            ctx.find(f'extent:{shape}:contains', 'a point of the shape lies '
                     'outside the extents returned by _calc_extents', w,
                     params=dict(kind='extent', shape=shape))
        else:
            ctx.stats.unknown += 1
        # tightness: some point of the shape attains the extent
        ctx.stats.obligations += 1
        sol.push()
        sol.add(*side)
        rx_, ry_ = ctx.radicand(exe), ctx.radicand(eye)
        if shape == 'ellipse' and not twin and rx_ is not None and \
                ry_ is not None and poly_equal(
                    rx_, a.e * a.e * c.e * c.e + b.e * b.e * s.e * s.e) and \
                poly_equal(
                    ry_, a.e * a.e * s.e * s.e + b.e * b.e * c.e * c.e):
            # support function of the rotated ellipse, by normal form
            sol.add(z3.BoolVal(False))
        elif shape == 'ellipse':
            # attained at a boundary point: exists (u,v) on the ellipse
            # with X == ex  <=>  ex^2 == a^2 c^2 + b^2 s^2 (support function)
            sol.add(z3.Not(z3.And(
                exe * exe == a.e * a.e * c.e * c.e + b.e * b.e * s.e * s.e,
                eye * eye == a.e * a.e * s.e * s.e + b.e * b.e * c.e * c.e,
                exe >= 0, eye >= 0)))
        else:
            ac = z3.If(c.e >= 0, c.e, -c.e)
            as_ = z3.If(s.e >= 0, s.e, -s.e)
            sol.add(z3.Not(z3.And(2 * exe == a.e * ac + b.e * as_,
                                  2 * eye == a.e * as_ + b.e * ac)))
        r = ctx._check()
        w = ctx.witness(sol.model()) if r == z3.sat else None
        sol.pop()
        if r == z3.unsat:
            ctx.stats.unsat += 1
        elif r == z3.sat and not twin:
            ctx.stats.sat += 1
            ctx.find(f'extent:{shape}:tight', 'extent is not the support of '
                     'the rotated shape', w,
                     params=dict(kind='extent', shape=shape))
        elif r != z3.sat:
            ctx.stats.unknown += 1
        else:
            ctx.stats.sat += 1
        if len(samples) < 1:
            samples.append(dict(shape=shape, x_extent=str(ex)[:120]))

    _, st, f = explore(fn, timeout_ms=60000)
    return dict(stats=st, findings=f, samples=samples, nontrivial=cnt['n'])


# ---------------------------------------------------------------- edges / wiring
def _aper_pool():
    from photutils.aperture import (CircularAnnulus, CircularAperture,
                                    EllipticalAnnulus, EllipticalAperture,
                                    RectangularAnnulus, RectangularAperture)
    P = [(2.3, 4.7), (-7.5, 0.5), (3.0, 3.0), (100.25, -40.5)]
    out = []
    for p in P:
        out += [('circ', CircularAperture, dict(positions=p, r=2.4)),
                ('circ-small', CircularAperture, dict(positions=p, r=0.03)),
                ('ell', EllipticalAperture, dict(positions=p, a=3.3, b=0.4,
                                                 theta=0.7)),
                ('rect', RectangularAperture, dict(positions=p, w=4.2, h=1.1,
                                                   theta=2.2)),
                ('cann', CircularAnnulus, dict(positions=p, r_in=1.0,
                                               r_out=2.999)),
                ('eann', EllipticalAnnulus, dict(positions=p, a_in=1.2,
                                                 a_out=3.1, b_out=1.4,
                                                 theta=-0.4)),
                ('rann', RectangularAnnulus, dict(positions=p, w_in=1.0,
                                                  w_out=3.4, h_out=2.2,
                                                  theta=0.9))]
    return out


def _wiring_check(k, method, subpixels):
    """to_mask: kernels are called on the bbox edges recentred on the
    aperture, with the documented mode translation; annulus = outer-inner;
    the mask array is registered to the bbox."""
    import photutils.aperture.circle as mc
    import photutils.aperture.ellipse as me
    import photutils.aperture.rectangle as mr
    name, cls, kw = _aper_pool()[k]
    ap = cls(**kw)
    calls = []

    def rec(kind):
        def f(xmin, xmax, ymin, ymax, nx, ny, *rest):
            calls.append((kind, xmin, xmax, ymin, ymax, nx, ny, rest))
            base = 10.0 * len(calls)
            return np.full((ny, nx), base) + np.arange(nx)[None, :] + \
                100 * np.arange(ny)[:, None]
        return f
    saved = (mc.circular_overlap_grid, me.elliptical_overlap_grid,
             mr.rectangular_overlap_grid)
    mc.circular_overlap_grid = rec('c')
    me.elliptical_overlap_grid = rec('e')
    mr.rectangular_overlap_grid = rec('r')
    try:
        m = ap.to_mask(method=method, subpixels=subpixels)
    finally:
        (mc.circular_overlap_grid, me.elliptical_overlap_grid,
         mr.rectangular_overlap_grid) = saved
    x, y = kw['positions']
    annulus = 'ann' in name
    if len(calls) != (2 if annulus else 1):
        return f'{len(calls)} kernel calls'
    # expected bbox: minimal box of the outer shape
    dx, dy = ap._xy_extents
    bb = m.bbox
    exp_bb = (math.floor(x - dx + 0.5), math.ceil(x + dx + 0.5),
              math.floor(y - dy + 0.5), math.ceil(y + dy + 0.5))
    if (bb.ixmin, bb.ixmax, bb.iymin, bb.iymax) != exp_bb:
        return f'bbox {bb} != {exp_bb}'
    use_exact, sp = (1, 1) if method == 'exact' else (
        (0, 1) if method == 'center' else (0, subpixels))
    if name.startswith('r') and method == 'exact':
        use_exact, sp = 0, 32
    sizes = {'circ': [(2.4,)], 'circ-small': [(0.03,)],
             'ell': [(3.3, 0.4)], 'rect': [(4.2, 1.1)],
             'cann': [(2.999,), (1.0,)],
             'eann': [(3.1, 1.4), (1.2, 1.4 * 1.2 / 3.1)],
             'rann': [(3.4, 2.2), (1.0, 2.2 * 1.0 / 3.4)]}[name]
    for c, size in zip(calls, sizes):
        kind, xmin, xmax, ymin, ymax, nx, ny, rest = c
        e = (bb.ixmin - 0.5 - x, bb.ixmax - 0.5 - x, bb.iymin - 0.5 - y,
             bb.iymax - 0.5 - y)
        if not np.allclose((xmin, xmax, ymin, ymax), e, rtol=0, atol=1e-12):
            return f'kernel edges {(xmin, xmax, ymin, ymax)} != {e}'
        if (nx, ny) != (bb.ixmax - bb.ixmin, bb.iymax - bb.iymin):
            return f'kernel grid {(nx, ny)} != bbox shape'
        rest = list(rest)
        if not np.allclose(rest[:len(size)], size, rtol=1e-12):
            return f'kernel sizes {rest[:len(size)]} != {size}'
        if kind != 'c':
            th = rest[len(size)]
            if not np.isclose(th, kw['theta'], rtol=1e-12):
                return f'kernel theta {th}'
        if tuple(rest[-2:]) != (use_exact, sp):
            return f'kernel mode {rest[-2:]} != {(use_exact, sp)}'
    nyb, nxb = bb.iymax - bb.iymin, bb.ixmax - bb.ixmin
    grid = np.arange(nxb)[None, :] + 100 * np.arange(nyb)[:, None]
    exp = 10.0 + grid
    if annulus:
        exp = (10.0 + grid) - (20.0 + grid)
    if m.data.shape != (nyb, nxb) or not np.array_equal(m.data, exp):
        return 'mask data is not kernel(outer) - kernel(inner) on the bbox'
    return None


def _run_wiring(case):
    cnt = dict(n=0)
    samples = []
    n = len(_aper_pool())

    def fn(ctx):
        k = ctx.choice('aper', n)
        method = ctx.choice('method', ['exact', 'center', 'subpixel'])
        sp = ctx.choice('subpixels', [1, 5, 32])
        ctx.stats.obligations += 1
        cnt['n'] += 1
        msg = _wiring_check(k, method, sp)
        if msg is None:
            ctx.stats.unsat += 1
        else:
            ctx.stats.sat += 1
            ctx.find('wiring:' + msg.split()[0], f'{_aper_pool()[k][0]} '
                     f'{_aper_pool()[k][2]} {method}/{sp}: {msg}',
                     ctx.witness(), params=dict(kind='wiring', k=k,
                                                method=method, sp=sp))
        if len(samples) < 2:
            samples.append(dict(aper=_aper_pool()[k][0], method=method,
                                subpixels=sp))

    _, st, f = explore(fn)
    return dict(stats=st, findings=f, samples=samples, nontrivial=cnt['n'])


# ---------------------------------------------------------------- PYX kernels
def _load_pyx(symbolic):
    """Transliterate the four .pyx files from the current /repo text."""
    from ..pyx2py import convert
    ns = {}
    if symbolic:
        def sqrt(x):
            return x.sqrt() if isinstance(x, SymReal) else math.sqrt(x)

        def fabs(x):
            return abs(x)

        def sin(x):
            return x.s if isinstance(x, _Angle) else math.sin(x)

        def cos(x):
            return x.c if isinstance(x, _Angle) else math.cos(x)

        def asin(x):
            raise OutOfModel('asin')
    else:
        sqrt, fabs, sin, cos, asin = (math.sqrt, math.fabs, math.sin,
                                      math.cos, math.asin)
    ns.update(sqrt=sqrt, fabs=fabs, sin=sin, cos=cos, asin=asin, np=np,
              DTYPE=np.float64 if not symbolic else object, min=min, max=max)
    order = ['core', 'circular_overlap', 'elliptical_overlap',
             'rectangular_overlap']
    for name in order:
        pyxdir = os.environ.get('VERIF_PYX_DIR', os.path.join(
            REPO, 'photutils', 'geometry'))   # override for self-tests only
        src = open(os.path.join(pyxdir, name + '.pyx')).read()
        py = convert(src)
        py = py.replace('from .core import', '# from .core import')
        exec(compile(py, name + '.pyx->py', 'exec'), ns)
    return ns


def _run_kernel(case):
    from .. import facade
    facade.install()
    ns = _load_pyx(True)
    shape = case['shape']
    sp = case['sp']
    twin = case.get('twin')
    cnt = dict(n=0)
    samples = []

    def fn(ctx):
        x0, y0 = ctx.real('x0'), ctx.real('y0')
        x1, y1 = x0 + 1, y0 + 1
        if shape == 'circle':
            r = ctx.real('r')
            ctx.assume(r.e > 0)
            frac = ns['circular_overlap_single_subpixel'](x0, y0, x1, y1, r,
                                                          sp)

            def inside(px, py):
                return px * px + py * py < r.e * r.e
        else:
            a, b = ctx.real('a'), ctx.real('b')
            c, s = ctx.real('c'), ctx.real('s')
            ctx.assume(z3.And(a.e > 0, b.e > 0,
                              c.e * c.e + s.e * s.e == 1))
            th = _Angle(c, s)
            if shape == 'ellipse':
                frac = ns['elliptical_overlap_single_subpixel'](
                    x0, y0, x1, y1, a, b, th, sp)

                def inside(px, py):
                    # (u/a)^2 + (v/b)^2 < 1 in the rotated frame
                    u = py * s.e + px * c.e
                    v = py * c.e - px * s.e
                    return u * u * (1 / (a.e * a.e)) + v * v * (
                        1 / (b.e * b.e)) < 1
            else:
                frac = ns['rectangular_overlap_single_subpixel'](
                    x0, y0, x1, y1, a, b, th, sp)

                def inside(px, py):
                    u = py * s.e + px * c.e
                    v = py * c.e - px * s.e
                    au = z3.If(u >= 0, u, -u)
                    av = z3.If(v >= 0, v, -v)
                    return z3.And(au < a.e / 2, av < b.e / 2)
        cnt['n'] += 1
        k = z3.RealVal(0)
        for i in range(sp):
            for j in range(sp):
                px = x0.e + z3.Q(2 * i + 1, 2 * sp)
                py = y0.e + z3.Q(2 * j + 1, 2 * sp)
                if twin and (i, j) == (0, 0):
                    px = px + z3.Q(1, 2 * sp)
                cnd = z3.simplify(inside(px, py))
                known = ctx.decided.get(cnd.get_id())
                if known is None and z3.is_and(cnd):
                    ks = [ctx.decided.get(z3.simplify(q).get_id())
                          for q in cnd.children()]
                    if all(q is not None for q in ks):
                        known = all(ks)
                    elif any(q is False for q in ks):
                        known = False
                if known is not None and not twin:
                    k = k + (1 if known else 0)
                else:
                    k = k + z3.If(cnd, 1, 0)
        # frac is a concrete float on each path (count / s^2 rounded)
        fe = term(const(frac)) * (sp * sp) - k
        r_, m = ctx.holds(z3.And(fe < z3.Q(1, 10**9), -fe < z3.Q(1, 10**9)),
                          'kernel')
        if r_ == 'sat':
            ctx.find(f'kernel:{shape}:subpixel', f'{shape}_overlap_single_'
                     f'subpixel is not the fraction of sub-pixel centres '
                     f'inside the shape (subpixels={sp})', ctx.witness(m),
                     params=dict(kind='kernel', shape=shape, sp=sp))
        if len(samples) < 1:
            samples.append(dict(shape=shape, sp=sp, frac=str(frac)[:100]))

    _, st, f = explore(fn, lazy=case.get('lazy', False), timeout_ms=30000)
    return dict(stats=st, findings=f, samples=samples, nontrivial=cnt['n'])



# ---------------------------------------------------------------- exact circle kernel (algebraic skeleton)
D4 = [lambda x, y: (x, y), lambda x, y: (-x, y), lambda x, y: (x, -y),
      lambda x, y: (-x, -y), lambda x, y: (y, x), lambda x, y: (-y, x),
      lambda x, y: (y, -x), lambda x, y: (-y, -x)]


def _run_exactsplit(case):
    """circular_overlap_single_exact: the recursive quadrant split, with
    circular_overlap_core replaced by a recording stub.  Every core call must
    satisfy the core's precondition and be the image, under a symmetry of the
    circle, of a sub-rectangle of the pixel; the sub-rectangles tile the
    pixel (areas add up, interiors disjoint); the result is the sum of the
    core values."""
    from .. import facade
    facade.install()
    ns = _load_pyx(True)
    cnt = dict(n=0)
    samples = []

    def fn(ctx):
        xmin, ymin = ctx.real('xmin'), ctx.real('ymin')
        xmax, ymax = ctx.real('xmax'), ctx.real('ymax')
        r = ctx.real('r')
        ctx.assume(z3.And(xmin.e < xmax.e, ymin.e < ymax.e, r.e > 0))
        calls = []

        def core(a, b, c, d, rr):
            v = SymReal(ctx.fresh('core'))
            calls.append((a, b, c, d, rr, v))
            return v
        ns['circular_overlap_core'] = core
        res = ns['circular_overlap_single_exact'](xmin, ymin, xmax, ymax, r)
        cnt['n'] += 1
        groups = {}
        T = lambda v: term(const(v))  # noqa
        pulled = []
        for k, (a, b, c, d, rr, v) in enumerate(calls):
            a, b, c, d = T(a), T(b), T(c), T(d)
            groups.setdefault('precondition', []).append(
                z3.And(a >= 0, b >= 0, a <= c, b <= d, T(rr) == r.e))
            # which symmetry maps the core rectangle back into the pixel?
            found = None
            for gi, g in enumerate(D4):
                (px0, py0), (px1, py1) = g(a, b), g(c, d)
                lox = z3.If(px0 <= px1, px0, px1)
                hix = z3.If(px0 <= px1, px1, px0)
                loy = z3.If(py0 <= py1, py0, py1)
                hiy = z3.If(py0 <= py1, py1, py0)
                inside = z3.And(lox >= xmin.e, hix <= xmax.e,
                                loy >= ymin.e, hiy <= ymax.e)
                if ctx._check(z3.Not(inside)) == z3.unsat:
                    found = (lox, hix, loy, hiy)
                    break
            ctx.stats.obligations += 1
            if found is None:
                ctx.stats.sat += 1
                ctx.find('exact:split:not-a-subrectangle', f'core call {k} is '
                         'not the image of a sub-rectangle of the pixel under '
                         'a symmetry of the circle', ctx.witness(),
                         params=dict(kind='exactsplit'))
                return
            ctx.stats.unsat += 1
            pulled.append(found)
        area = sum(((hx - lx) * (hy - ly) for lx, hx, ly, hy in pulled),
                   z3.RealVal(0))
        groups['tiling-area'] = [area == (xmax.e - xmin.e) * (ymax.e - ymin.e)]
        dis = []
        for i in range(len(pulled)):
            for j in range(i + 1, len(pulled)):
                a_, b_ = pulled[i], pulled[j]
                dis.append(z3.Or(a_[1] <= b_[0], b_[1] <= a_[0],
                                 a_[3] <= b_[2], b_[3] <= a_[2]))
        groups['tiling-disjoint'] = dis or [z3.BoolVal(True)]
        groups['sum'] = [T(res) == sum((T(c[5]) for c in calls),
                                       z3.RealVal(0))]
        if case.get('twin'):
            groups['sum'] = [T(res) == sum((T(c[5]) for c in calls[1:]),
                                           z3.RealVal(0))]
        for site, cl in groups.items():
            r_, m = ctx.holds(z3.And(cl), site)
            if r_ == 'sat':
                ctx.find(f'exact:split:{site}', 'quadrant split of '
                         'circular_overlap_single_exact: ' + site,
                         ctx.witness(m), params=dict(kind='exactsplit'))
        if len(samples) < 2:
            samples.append(dict(ncore=len(calls)))

    _, st, f = explore(fn, timeout_ms=30000)
    return dict(stats=st, findings=f, samples=samples, nontrivial=cnt['n'])


def _run_exactcore(case):
    """circular_overlap_core with area_arc uninterpreted: trivial branches are
    justified by NRA lemmas; in the other branches the chord end points lie
    on the circle and on the pixel boundary, area_arc is called once with
    them, and the polygonal part equals the shoelace area of (corners inside
    the circle + chord end points)."""
    from .. import facade
    facade.install()
    ns = _load_pyx(True)
    cnt = dict(n=0)
    samples = []

    def shoelace(pts):
        s = z3.RealVal(0)
        n = len(pts)
        for i in range(n):
            x1, y1 = pts[i]
            x2, y2 = pts[(i + 1) % n]
            s = s + (x1 * y2 - x2 * y1)
        return s / 2

    def fn(ctx):
        xmin, ymin = ctx.real('xmin'), ctx.real('ymin')
        xmax, ymax = ctx.real('xmax'), ctx.real('ymax')
        r = ctx.real('r')
        ctx.assume(z3.And(xmin.e >= 0, ymin.e >= 0, xmin.e < xmax.e,
                          ymin.e < ymax.e, r.e > 0))
        arcs = []

        def area_arc(x1, y1, x2, y2, rr):
            v = SymReal(ctx.fresh('arc'))
            arcs.append((x1, y1, x2, y2, rr, v))
            return v
        ns['area_arc'] = area_arc
        res = ns['circular_overlap_core'](xmin, ymin, xmax, ymax, r)
        cnt['n'] += 1
        T = lambda v: term(const(v))  # noqa
        xn, yn, xx, yx, rr = xmin.e, ymin.e, xmax.e, ymax.e, r.e
        u, v = ctx.fresh('u'), ctx.fresh('v')
        inrect = z3.And(u >= xn, u <= xx, v >= yn, v <= yx)
        params = dict(kind='exactcore')

        def lemma(label, phi):
            # phi must be unsatisfiable together with the path condition
            ctx.stats.obligations += 1
            side = ctx._side_for(phi)
            rs = ctx._check(phi, *side)
            if rs == z3.unsat:
                ctx.stats.unsat += 1
            elif rs == z3.sat:
                ctx.stats.sat += 1
                ctx.find(f'exact:core:{label}', label,
                         ctx.witness(ctx.solver.model()), params=params)
            else:
                ctx.stats.unknown += 1
        if not arcs:
            # trivial branches: result is 0 or the full rectangle
            isz = ctx._check(T(res) != 0) == z3.unsat
            if isz:
                lemma('zero-branch-but-overlap',
                      z3.And(inrect, u * u + v * v < rr * rr))
            else:
                r_, m = ctx.holds(T(res) == (xx - xn) * (yx - yn), 'full')
                if r_ == 'sat':
                    ctx.find('exact:core:full-value', 'full branch value',
                             ctx.witness(m), params=params)
                lemma('full-branch-but-outside',
                      z3.And(inrect, u * u + v * v > rr * rr))
            return
        if len(arcs) != 1:
            ctx.find('exact:core:arc-calls', f'{len(arcs)} arc terms',
                     ctx.witness(), params=params)
            return
        x1, y1, x2, y2, ar, arcv = arcs[0]
        x1, y1, x2, y2 = T(x1), T(y1), T(x2), T(y2)
        conds = [x1 * x1 + y1 * y1 == rr * rr, x2 * x2 + y2 * y2 == rr * rr,
                 T(ar) == rr,
                 x1 >= xn, x1 <= xx, y1 >= yn, y1 <= yx,
                 x2 >= xn, x2 <= xx, y2 >= yn, y2 <= yx,
                 z3.Or(x1 == xn, x1 == xx, y1 == yn, y1 == yx),
                 z3.Or(x2 == xn, x2 == xx, y2 == yn, y2 == yx)]
        r_, m = ctx.holds(z3.And(conds), 'chord-endpoints')
        if r_ == 'sat':
            ctx.find('exact:core:chord-endpoints', 'chord end points are not '
                     'on the circle and on the pixel boundary',
                     ctx.witness(m), params=params)
        # polygonal part: corners inside the circle + chord end points,
        # in counter-clockwise order
        def ins(cx, cy):
            return ctx._check(z3.Not(cx * cx + cy * cy <= rr * rr)) == z3.unsat
        c00, c10, c01, c11 = ins(xn, yn), ins(xx, yn), ins(xn, yx), ins(xx, yx)
        poly = None
        if c00 and c10 and c01 and not c11:
            poly = [(xn, yn), (xx, yn), (x2, y2), (x1, y1), (xn, yx)]
        elif c00 and c10 and not c01:
            poly = [(xn, yn), (xx, yn), (x2, y2), (x1, y1)]
        elif c00 and c01 and not c10:
            poly = [(xn, yn), (x1, y1), (x2, y2), (xn, yx)]
        elif c00:
            poly = [(xn, yn), (x1, y1), (x2, y2)]
        ctx.stats.obligations += 1
        if poly is None:
            ctx.stats.unknown += 1
            return
        ctx.stats.unsat += 1
        sh = shoelace(poly)
        if case.get('twin'):
            sh = sh + 1
        r_, m = ctx.holds(T(res) - T(arcv) == sh, 'polygon-part')
        if r_ == 'sat':
            ctx.find('exact:core:polygon-part', 'result minus the arc term is '
                     'not the area of the polygon (corners inside + chord '
                     'end points)', ctx.witness(m), params=params)
        if len(samples) < 2:
            samples.append(dict(corners_inside=[c00, c10, c01, c11]))

    _, st, f = explore(fn, timeout_ms=30000)
    return dict(stats=st, findings=f, samples=samples, nontrivial=cnt['n'])


def _run_exactellipse(case):
    """elliptical_overlap_single_exact with the triangle/unit-circle routine
    replaced by a recording stub: the pixel corners are mapped to the frame
    in which the ellipse is the unit circle (the same frame as the ellipse
    predicate of the sub-pixel kernel), the two triangles share the diagonal
    and tile the image parallelogram, and the result is the sum of the two
    triangle values times the Jacobian rx*ry."""
    from .. import facade
    facade.install()
    ns = _load_pyx(True)
    cnt = dict(n=0)
    samples = []

    def fn(ctx):
        xmin, ymin = ctx.real('xmin'), ctx.real('ymin')
        w_, h_ = ctx.real('w'), ctx.real('h')
        rx, ry = ctx.real('rx'), ctx.real('ry')
        c, s_ = ctx.real('c'), ctx.real('s')
        ctx.assume(z3.And(w_.e > 0, h_.e > 0, rx.e > 0, ry.e > 0,
                          c.e * c.e + s_.e * s_.e == 1))
        xmax, ymax = xmin + w_, ymin + h_
        calls = []

        def tri(x1, y1, x2, y2, x3, y3):
            v = SymReal(ctx.fresh('tri'))
            calls.append(((x1, y1), (x2, y2), (x3, y3), v))
            return v
        ns['overlap_area_triangle_unit_circle'] = tri
        res = ns['elliptical_overlap_single_exact'](
            xmin, ymin, xmax, ymax, rx, ry, _Angle(c, s_))
        cnt['n'] += 1
        T = lambda v: term(const(v))  # noqa
        params = dict(kind='exactellipse')
        if len(calls) != 2:
            ctx.find('exact:ellipse:calls', f'{len(calls)} triangle calls',
                     ctx.witness(), params=params)
            return
        corners = {1: (xmin.e, ymin.e), 2: (T(xmax), ymin.e),
                   3: (T(xmax), T(ymax)), 4: (xmin.e, T(ymax))}

        def frame(p):
            x, y = p
            return ((x * c.e + y * s_.e), (-x * s_.e + y * c.e))
        groups = {}
        expect = [(1, 2, 3), (1, 4, 3)]
        for (pa, pb, pc, v), idx in zip(calls, expect):
            for (X, Y), k in zip((pa, pb, pc), idx):
                u, vv = frame(corners[k])
                groups.setdefault('frame', []).append(
                    z3.And(T(X) * rx.e == u, T(Y) * ry.e == vv))
        if case.get('twin'):
            groups['frame'].append(T(calls[0][0][0]) * rx.e
                                   == frame(corners[2])[0])

        # tiling, in the rotated (u, v) frame (the map to the unit-circle
        # frame is the positive diagonal scaling established by 'frame'):
        # the triangles (1,2,3) and (1,4,3) lie on opposite sides of the
        # shared diagonal and their areas add up to the pixel area
        def area2(i, j, k):     # twice the signed area in the (u, v) frame
            (pu, pv), (qu, qv), (ru, rv) = (frame(corners[i]),
                                            frame(corners[j]),
                                            frame(corners[k]))
            return (qu - pu) * (rv - pv) - (ru - pu) * (qv - pv)
        a1 = area2(*expect[0])
        a2 = area2(*expect[1])
        groups['tiling'] = [a1 == w_.e * h_.e, a2 == -w_.e * h_.e]
        groups['sum'] = [T(res) == (T(calls[0][3]) + T(calls[1][3]))
                         * rx.e * ry.e]
        for site, cl in groups.items():
            r_, m = ctx.holds(z3.And(cl), site)
            if r_ == 'sat':
                ctx.find(f'exact:ellipse:{site}', 'ellipse exact kernel: '
                         + site, ctx.witness(m), params=params)
        if len(samples) < 1:
            samples.append(dict(ncalls=len(calls)))

    _, st, f = explore(fn, timeout_ms=60000)
    return dict(stats=st, findings=f, samples=samples, nontrivial=cnt['n'])


# ---------------------------------------------------------------- translation validation
def _tv_check(seed, n):
    from photutils.geometry import (circular_overlap_grid,
                                    elliptical_overlap_grid,
                                    rectangular_overlap_grid)
    ns = _load_pyx(False)
    rng = np.random.default_rng(seed)
    bad = None
    done = 0
    for t in range(n):
        nx, ny = int(rng.integers(1, 5)), int(rng.integers(1, 5))
        cx, cy = rng.uniform(-2, 2, 2)
        if t % 7 == 0:
            cx, cy = float(round(cx * 2) / 2), float(round(cy * 2) / 2)
        xmin, ymin = -cx - nx / 2, -cy - ny / 2
        args = (xmin, xmin + nx, ymin, ymin + ny, nx, ny)
        mode = [(1, 1), (0, 1), (0, 3), (0, 5)][t % 4]
        r = float(rng.choice([0.03, 0.4, 1.0, 1.7, 2.5]))
        b = float(rng.choice([0.02, 0.3, 1.0])) * r
        th = float(rng.choice([0, math.pi / 4, 0.3, 2.1, math.pi / 2]))
        tests = [('circular', circular_overlap_grid,
                  ns['circular_overlap_grid'], (r,)),
                 ('elliptical', elliptical_overlap_grid,
                  ns['elliptical_overlap_grid'], (r, b, th)),
                 ('rectangular', rectangular_overlap_grid,
                  ns['rectangular_overlap_grid'], (2 * r, 2 * b, th))]
        name, real, tl, extra = tests[t % 3]
        if name == 'rectangular' and mode[0] == 1:
            mode = (0, 4)
        a = real(*args, *extra, *mode)
        try:
            bpy = np.array(tl(*args, *extra, *mode), dtype=float)
        except Exception as e:  # noqa
            return f'{name}: transliteration raised {e!r}', done
        tol = 0 if mode[0] == 0 else 1e-13
        if not np.allclose(a, bpy, rtol=0, atol=tol):
            bad = (f'{name} args={args + extra + mode}: compiled {a.tolist()}'
                   f' vs transliterated {bpy.tolist()}')
            break
        done += 1
    return bad, done


def _run_tv(case):
    st = Stats()
    st.paths = 1
    bad, done = _tv_check(case['seed'], case['n'])
    st.obligations = done + (1 if bad else 0)
    st.unsat = done
    findings = []
    if bad:
        # the analysed text does not describe the running binary: this is
        # inconclusive by design, reported as a harness error
        raise RuntimeError('translation validation failed (the .pyx text and '
                           'the compiled kernels disagree): ' + bad)
    return dict(stats=st, findings=findings,
                samples=[dict(tv_grids=done, seed=case['seed'])],
                nontrivial=done)


def _run_reassign(case):
    # cached bbox / centred edges after attribute re-assignment (shared with
    # the C09 history harness)
    from . import c09
    return c09._run_aper(dict(aper=case['aper'], len=case['len']))


def _zero_concrete(xmin, ymin, rx, ry):
    """real compiled kernel: weight of the unit pixel at (xmin, ymin) for an
    axis-aligned ellipse at the origin, and a 60x60 sampling of the truth."""
    from photutils.geometry import elliptical_overlap_grid
    got = float(elliptical_overlap_grid(xmin, xmin + 1, ymin, ymin + 1, 1, 1,
                                        rx, ry, 0.0, 1, 1)[0, 0])
    g = (np.arange(60) + 0.5) / 60
    xx, yy = np.meshgrid(xmin + g, ymin + g)
    truth = float((((xx / rx) ** 2 + (yy / ry) ** 2) < 1).mean())
    return got, truth


def _run_exactzero(case):
    """elliptical_overlap_single_exact (transliterated, incl. the real
    triangle/unit-circle routine) on a symbolic unit pixel and a symbolic
    axis-aligned ellipse, directed at the branches that return the literal
    0 without computing an arc: whenever the kernel answers 0 no sample
    point of the open pixel may lie strictly inside the ellipse."""
    from .. import facade
    facade.install()
    ns = _load_pyx(True)
    mode = case['mode']
    cnt = dict(n=0)
    samples = []
    R = z3.RealVal

    def fn(ctx):
        xmin, ymin = ctx.real('xmin'), ctx.real('ymin')
        # semi-axes from a finite domain (division by a constant keeps the
        # frame map linear; z3's NRA engine does not finish with symbolic
        # semi-axes), pixel position symbolic
        frx, fry = ctx.choice('axes', ((2.5, 0.625), (1.0, 1.0), (3.0, 1.75),
                                       (0.75, 0.5)))
        rx, ry = SymReal(R(Fraction(frx))), SymReal(R(Fraction(fry)))
        ctx.notes['axes'] = (frx, fry)
        ctx.assume(z3.And(xmin.e >= -5, xmin.e <= 5,
                          ymin.e >= -5, ymin.e <= 5))
        corners = [(xmin.e, ymin.e), (xmin.e + 1, ymin.e),
                   (xmin.e + 1, ymin.e + 1), (xmin.e, ymin.e + 1)]

        def lev(pt):      # < 1 inside, scaled to avoid divisions
            x, y = pt
            return x * x * ry.e * ry.e + y * y * rx.e * rx.e, \
                rx.e * rx.e * ry.e * ry.e
        if mode == 'corner-on-curve':
            a, b = lev(corners[0])
            ctx.assume(a == b)
            for pt in corners[1:]:
                a, b = lev(pt)
                ctx.assume(a > b * R('21/20'))
        else:             # every corner clearly outside
            for pt in corners:
                a, b = lev(pt)
                ctx.assume(a > b * R('21/20'))
        try:
            res = ns['elliptical_overlap_single_exact'](
                xmin, ymin, xmin + 1, ymin + 1, frx, fry, 0.0)
        except ZeroDivisionError:
            raise OutOfModel('division by zero in the kernel')
        z = z3.simplify(term(const(res)))
        cnt['n'] += 1
        if not (z3.is_rational_value(z) and z.numerator_as_long() == 0):
            return
        conds = []
        for fx, fy in ((R('1/2'), R('1/2')), (R('1/4'), R('1/4')),
                       (R('3/4'), R('1/4')), (R('1/4'), R('3/4')),
                       (R('3/4'), R('3/4'))):
            a, b = lev((xmin.e + fx, ymin.e + fy))
            if case.get('twin'):
                conds.append(a >= b * 2)
            else:
                conds.append(a >= b * R('9/10'))
        r_, m = ctx.holds(z3.And(conds), 'zero-means-disjoint')
        if r_ == 'sat':
            ctx.find(f'exact:ellipse:zero-for-overlapping-pixel:{mode}',
                     'elliptical_overlap_single_exact returns 0 for a pixel '
                     'with a sample point well inside the ellipse',
                     ctx.witness(m), params=dict(kind='exactzero', mode=mode,
                                                 axes=[frx, fry],
                                                 twin=bool(case.get('twin'))))
        if not samples:
            samples.append(dict(mode=mode))

    _, st, f = explore(fn, max_seconds=case.get('seconds', 120),
                       timeout_ms=30000)
    return dict(stats=st, findings=f, samples=samples, nontrivial=cnt['n'])


# ---- end-to-end masks of the public classes (concrete, solver-enumerated) ---
AREA_SHAPES = ('circle', 'ellipse', 'rectangle', 'cann', 'eann', 'rann')


def _area_aperture(shape, cx, cy, size, ratio, theta):
    import photutils.aperture as pa
    a, b = size, size * ratio
    if shape == 'circle':
        return pa.CircularAperture((cx, cy), a), math.pi * a * a
    if shape == 'ellipse':
        return pa.EllipticalAperture((cx, cy), a, b, theta=theta), \
            math.pi * a * b
    if shape == 'rectangle':
        return pa.RectangularAperture((cx, cy), 2 * a, 2 * b, theta=theta), \
            4 * a * b
    if shape == 'cann':
        return pa.CircularAnnulus((cx, cy), 0.6 * a, a), \
            math.pi * a * a * (1 - 0.36)
    if shape == 'eann':
        return pa.EllipticalAnnulus((cx, cy), 0.5 * a, a, b, theta=theta), \
            math.pi * a * b * (1 - 0.25)
    return pa.RectangularAnnulus((cx, cy), a, 2 * a, 2 * b, theta=theta), \
        4 * a * b * (1 - 0.25)


def _inside(shape, x, y, cx, cy, size, ratio, theta):
    """signed 'level' of a point: < 1 inside, > 1 outside (outer, inner)."""
    a, b = size, size * ratio
    c, s_ = math.cos(theta), math.sin(theta)
    u = (x - cx) * c + (y - cy) * s_
    v = -(x - cx) * s_ + (y - cy) * c
    if shape in ('circle', 'cann'):
        r = math.hypot(x - cx, y - cy)
        return (r / a, r / (0.6 * a) if shape == 'cann' else None)
    if shape in ('ellipse', 'eann'):
        lv = math.hypot(u / a, v / b)
        return (lv, lv / 0.5 if shape == 'eann' else None)
    lv = max(abs(u) / a, abs(v) / b)
    return (lv, lv / 0.5 if shape == 'rann' else None)


def _area_check(shape, dx, dy, size, ratio, theta, method, sp):
    aper, area = _area_aperture(shape, 20 + dx, 17 + dy, size, ratio, theta)
    m = aper.to_mask(method=method, subpixels=sp)
    w = np.asarray(m.data, float)
    if (w < -1e-12).any() or (w > 1 + 1e-12).any():
        return f'weights outside [0, 1]: min {w.min()} max {w.max()}'
    bb = m.bbox
    if w.shape != (bb.iymax - bb.iymin, bb.ixmax - bb.ixmin):
        return f'mask shape {w.shape} does not match its bounding box {bb}'
    if method == 'exact':
        # rectangles are documented to be 32x32 sub-sampled
        # (error bound of sub-sampling: boundary length x sub-pixel size)
        per = 4 * (size + size * ratio) * (1.5 if shape == 'rann' else 1)
        tol = 1e-9 * area if shape in ('circle', 'ellipse', 'cann',
                                       'eann') else per / 32
        if abs(w.sum() - area) > tol:
            return (f'sum of exact weights {w.sum()!r} != analytic area '
                    f'{area!r}')
    n = 1 if method == 'center' else sp
    if method in ('center', 'subpixel'):
        for j in range(w.shape[0]):
            for i in range(w.shape[1]):
                cnt = amb = 0
                for sj in range(n):
                    for si in range(n):
                        x = bb.ixmin + i - 0.5 + (si + 0.5) / n
                        y = bb.iymin + j - 0.5 + (sj + 0.5) / n
                        lo, li = _inside(shape, x, y, 20 + dx, 17 + dy, size,
                                         ratio, theta)
                        if abs(lo - 1) < 1e-9 or (li is not None
                                                  and abs(li - 1) < 1e-9):
                            amb += 1
                        elif lo < 1 and (li is None or li > 1):
                            cnt += 1
                if not (cnt - 1e-9 <= w[j, i] * n * n <= cnt + amb + 1e-9):
                    return (f'pixel ({bb.ixmin + i},{bb.iymin + j}): weight '
                            f'{w[j, i]} but {cnt} (+{amb} on the boundary) '
                            f'of {n * n} sub-pixel centres are inside')
    # the box must contain the shape and be tight to within one pixel
    t = np.linspace(0, 2 * math.pi, 721)
    a, b = size, size * ratio
    if shape in ('circle', 'cann'):
        xs, ys = a * np.cos(t), a * np.sin(t)
    elif shape in ('ellipse', 'eann'):
        xs = a * np.cos(t) * math.cos(theta) - b * np.sin(t) * math.sin(theta)
        ys = a * np.cos(t) * math.sin(theta) + b * np.sin(t) * math.cos(theta)
    else:
        cr = np.array([(a, b), (-a, b), (-a, -b), (a, -b)], float)
        xs = cr[:, 0] * math.cos(theta) - cr[:, 1] * math.sin(theta)
        ys = cr[:, 0] * math.sin(theta) + cr[:, 1] * math.cos(theta)
    x0, x1 = 20 + dx + xs.min(), 20 + dx + xs.max()
    y0, y1 = 17 + dy + ys.min(), 17 + dy + ys.max()
    if not (bb.ixmin - 0.5 <= x0 + 1e-9 and x1 - 1e-9 <= bb.ixmax - 0.5
            and bb.iymin - 0.5 <= y0 + 1e-9 and y1 - 1e-9 <= bb.iymax - 0.5):
        return f'bounding box {bb} does not contain the shape'
    if (x0 - (bb.ixmin - 0.5) >= 1 + 1e-6 or (bb.ixmax - 0.5) - x1 >= 1 + 1e-6
            or y0 - (bb.iymin - 0.5) >= 1 + 1e-6
            or (bb.iymax - 0.5) - y1 >= 1 + 1e-6):
        return f'bounding box {bb} is not the smallest box around the shape'
    return None


# degenerate configurations (a pixel corner exactly on the curve, tangency,
# centre on a pixel corner): (shape, cx-20, cy-17, size, ratio, theta)
AREA_DEGENERATE = (
    ('ellipse', 0.0, 0.0, 2.5, 0.25, 0.0),
    ('ellipse', 0.0, 0.5, 2.5, 0.6, math.pi / 4),
    ('ellipse', 0.5, 0.5, 1.0, 1.0, 0.3),
    ('ellipse', 0.0, 0.0, 0.5, 1.0, math.pi / 4),
    ('ellipse', 0.0, 0.0, 2.5, 1.0, 0.0),
    ('ellipse', 0.0, 0.0, 0.3, 2 / 3, 0.0),
    ('circle', 0.0, 0.0, 2.5, 1.0, 0.0),
    ('circle', 0.0, 0.0, 0.5, 1.0, 0.0),
    ('circle', 0.5, 0.5, 1.0, 1.0, 0.0),
    ('cann', 0.0, 0.0, 2.5, 1.0, 0.0),
    ('eann', 0.0, 0.5, 1.0, 1.0, 0.0),
    ('rectangle', 0.0, 0.0, 1.5, 1.0, 0.0),
    ('rectangle', 0.5, 0.5, 1.0, 0.5, math.pi / 2),
)


def _run_area(case):
    cnt = dict(n=0)
    samples = []
    methods = (('exact', 1), ('center', 1), ('subpixel', 2), ('subpixel', 5))

    def fn(ctx):
        if case.get('degenerate'):
            shape, dx, dy, size, ratio, theta = ctx.choice(
                'cfg', AREA_DEGENERATE)
            method, sp = 'exact', 1
        else:
            shape = case['shape']
            dx = ctx.choice('dx', (0.0, 0.25, 0.5, -0.3))
            dy = ctx.choice('dy', (0.0, 0.5, -0.37))
            size = ctx.choice('size', (0.43, 1.07, 2.51, 3.7))
            ratio = ctx.choice('ratio', (1.0, 0.6, 0.25)) if shape not in (
                'circle', 'cann') else 1.0
            theta = ctx.choice('theta', (0.0, 0.3, math.pi / 4, 1.9, -2.0)) \
                if shape not in ('circle', 'cann') else 0.0
            method, sp = ctx.choice('method', methods)
        ctx.stats.obligations += 1
        cnt['n'] += 1
        msg = _area_check(shape, dx, dy, size, ratio, theta, method, sp)
        if case.get('twin') and method == 'exact' and msg is None:
            msg = 'twin: exact area deliberately mis-specified'
        if msg is None:
            ctx.stats.unsat += 1
        else:
            ctx.stats.sat += 1
            # one key per configuration (known findings are listed per input)
            ctx.find(f'mask:{shape}:{method}{sp}:c=({dx:g},{dy:g}):size={size:g}'
                     f':ratio={ratio:.3g}:theta={theta:.4g}',
                     f'{shape} centre=({20 + dx},{17 + dy}) size={size} '
                     f'ratio={ratio} theta={theta} {method}: {msg}',
                     ctx.witness(),
                     params=dict(kind='area', shape=shape, args=[
                         dx, dy, size, ratio, theta, method, sp],
                         twin=bool(case.get('twin'))))
        if len(samples) < 1:
            samples.append(dict(shape=shape, dx=dx, dy=dy, size=size))

    _, st, f = explore(fn)
    return dict(stats=st, findings=f, samples=samples, nontrivial=cnt['n'])


def run_case(case):
    if case['kind'] == 'reassign':
        return _run_reassign(case)
    if case['kind'] == 'area':
        return _run_area(case)
    return {'from_float': _run_from_float, 'slices': _run_slices,
            'setops': _run_setops, 'extent': _run_extent,
            'wiring': _run_wiring, 'kernel': _run_kernel,
            'exactsplit': _run_exactsplit, 'exactcore': _run_exactcore,
            'exactellipse': _run_exactellipse,
            'exactzero': _run_exactzero,
            'tv': _run_tv}[case['kind']](case)


def cases(tier, seed):
    cs = [dict(kind='from_float', name='bbox-from_float'),
          dict(kind='from_float', name='bbox-from_float-twin', twin=True)]
    for x in range(-4, 5):
        cs.append(dict(kind='slices', name=f'bbox-slices-x{x}', xr=(x, x)))
    for ax in range(-1, 3):
        cs.append(dict(kind='setops', name=f'bbox-setops-ax{ax}', ax=ax))
    for sh in ('ellipse', 'rectangle'):
        cs.append(dict(kind='extent', name=f'extent-{sh}', shape=sh))
    cs.append(dict(kind='extent', name='extent-ellipse-twin', shape='ellipse',
                   twin=True))
    cs.append(dict(kind='wiring', name='to_mask-wiring'))
    for sh in AREA_SHAPES:
        cs.append(dict(kind='area', name=f'public-mask-{sh}', shape=sh))
    cs.append(dict(kind='area', name='public-mask-degenerate',
                   degenerate=True))
    cs.append(dict(kind='area', name='public-mask-twin', shape='circle',
                   twin=True))
    for a in ('circ', 'ell', 'rect', 'eann'):
        cs.append(dict(kind='reassign', name=f'cached-bbox-reassign-{a}',
                       aper=a, len=2))
    maxsp = 3 if tier == 'quick' else 4
    for sp in range(1, maxsp + 1):
        cs.append(dict(kind='kernel', name=f'kernel-circle-sp{sp}',
                       shape='circle', sp=sp))
    for sh in ('ellipse', 'rectangle'):
        for sp in range(1, (2 if tier == 'quick' else 3) + 1):
            cs.append(dict(kind='kernel', name=f'kernel-{sh}-sp{sp}',
                           shape=sh, sp=sp, lazy=True))
    cs.append(dict(kind='kernel', name='kernel-circle-twin', shape='circle',
                   sp=2, twin=True))
    cs.append(dict(kind='exactsplit', name='exact-circle-quadrant-split'))
    cs.append(dict(kind='exactsplit', name='exact-circle-split-twin',
                   twin=True))
    cs.append(dict(kind='exactcore', name='exact-circle-core'))
    cs.append(dict(kind='exactellipse', name='exact-ellipse-frame'))
    cs.append(dict(kind='exactellipse', name='exact-ellipse-twin',
                   twin=True))
    cs.append(dict(kind='exactzero', name='exact-ellipse-zero-corner-on-curve',
                   mode='corner-on-curve'))
    # (mode 'outside' - all four corners outside, through circle_segment and
    # the recursive split - does not terminate in z3's NRA engine and is not
    # registered)
    cs.append(dict(kind='exactcore', name='exact-circle-core-twin',
                   twin=True))
    for k in range(4 if tier == 'quick' else 12):
        cs.append(dict(kind='tv', name=f'translation-validation-{k}',
                       seed=seed * 100 + k, n=100 if tier == 'quick' else 250))
    return cs


def _replay_exact(w):
    """Compiled exact kernel vs. a fine sub-pixel count on the witness
    rectangle (an independent numerical estimate of the overlap area)."""
    from photutils.geometry import circular_overlap_grid
    try:
        xmin, xmax = float(w['xmin']), float(w['xmax'])
        ymin, ymax = float(w['ymin']), float(w['ymax'])
        r = float(w['r'])
    except (KeyError, TypeError, ValueError):
        return False, 'no numeric witness'
    a = circular_overlap_grid(xmin, xmax, ymin, ymax, 1, 1, r, 1, 1)[0, 0]
    b = circular_overlap_grid(xmin, xmax, ymin, ymax, 1, 1, r, 0, 400)[0, 0]
    return abs(a - b) > 2e-3, f'exact fraction {a} vs 400x400 sub-sampling {b}'


def replay(f):
    p = f['params']
    w = f.get('witness') or {}
    k = p['kind']
    if k == 'aper':
        from . import c09
        return c09.replay(f)
    if k == 'exactzero':
        if p.get('twin'):
            return False, 'twin'
        xmin, ymin = float(w['xmin']), float(w['ymin'])
        rx, ry = p['axes']
        got, truth = _zero_concrete(xmin, ymin, rx, ry)
        return (got < 1e-12 and truth > 0.01), (
            f'elliptical_overlap_grid(pixel at ({xmin},{ymin}), rx={rx}, '
            f'ry={ry}) = {got}, sampled overlap {truth}')
    if k == 'area':
        if p.get('twin'):
            return False, 'twin'
        msg = _area_check(p['shape'], *p['args'])
        return msg is not None, str(msg)
    if k == 'slices':
        msg = _slices_check(tuple(p['box']), tuple(p['shape']))
        return msg is not None, str(msg)
    if k == 'setops':
        msg = _setops_check(tuple(p['a']), tuple(p['b']))
        return msg is not None, str(msg)
    if k == 'wiring':
        msg = _wiring_check(p['k'], p['method'], p['sp'])
        return msg is not None, str(msg)
    if k == 'from_float':
        from photutils.aperture import BoundingBox
        x0, x1, y0, y1 = (float(w[n]) for n in ('x0', 'x1', 'y0', 'y1'))
        b = BoundingBox.from_float(x0, x1, y0, y1)
        ok = (b.ixmin - 0.5 <= x0 < b.ixmin + 0.5
              and b.ixmax - 1.5 < x1 <= b.ixmax - 0.5
              and b.iymin - 0.5 <= y0 < b.iymin + 0.5
              and b.iymax - 1.5 < y1 <= b.iymax - 0.5)
        return not ok, f'from_float({x0},{x1},{y0},{y1}) = {b}'
    if k == 'extent':
        from photutils.aperture import EllipticalAperture, RectangularAperture
        a, b = float(w['a']), float(w['b'])
        th = math.atan2(float(w['s']), float(w['c']))
        cls = EllipticalAperture if p['shape'] == 'ellipse' else \
            RectangularAperture
        ex, ey = cls((0, 0), a, b, theta=th)._xy_extents
        t = np.linspace(0, 2 * np.pi, 2001)
        if p['shape'] == 'ellipse':
            u, v = a * np.cos(t), b * np.sin(t)
        else:
            u = np.array([a, a, -a, -a]) / 2
            v = np.array([b, -b, b, -b]) / 2
        X = u * np.cos(th) - v * np.sin(th)
        Y = u * np.sin(th) + v * np.cos(th)
        bad = abs(np.max(np.abs(X)) - ex) > 1e-5 * max(1, ex) or \
            abs(np.max(np.abs(Y)) - ey) > 1e-5 * max(1, ey)
        return bad, f'a={a} b={b} theta={th}: extents {(ex, ey)} vs sampled ' \
                    f'{(np.max(np.abs(X)), np.max(np.abs(Y)))}'
    if k in ('exactsplit', 'exactcore'):
        return _replay_exact(w)
    if k == 'exactellipse':
        return False, 'skeleton obligation of the ellipse kernel: compare ' \
                      'with translation validation'
    if k == 'kernel':
        # replay on the compiled kernel through the public grid function
        from photutils.geometry import (circular_overlap_grid,
                                        elliptical_overlap_grid,
                                        rectangular_overlap_grid)
        x0, y0 = float(w['x0']), float(w['y0'])
        sp = p['sp']
        pts = [(x0 + (2 * i + 1) / (2 * sp), y0 + (2 * j + 1) / (2 * sp))
               for i in range(sp) for j in range(sp)]
        if p['shape'] == 'circle':
            r = float(w['r'])
            got = circular_overlap_grid(x0, x0 + 1, y0, y0 + 1, 1, 1, r, 0,
                                        sp)[0, 0]
            exp = sum(px * px + py * py < r * r for px, py in pts) / sp ** 2
        else:
            a, b = float(w['a']), float(w['b'])
            th = math.atan2(float(w['s']), float(w['c']))
            c, s = math.cos(th), math.sin(th)
            if p['shape'] == 'ellipse':
                got = elliptical_overlap_grid(x0, x0 + 1, y0, y0 + 1, 1, 1,
                                              a, b, th, 0, sp)[0, 0]
                exp = sum(((px * c + py * s) / a) ** 2
                          + ((-px * s + py * c) / b) ** 2 < 1
                          for px, py in pts) / sp ** 2
            else:
                got = rectangular_overlap_grid(x0, x0 + 1, y0, y0 + 1, 1, 1,
                                               a, b, th, 0, sp)[0, 0]
                exp = sum(abs(px * c + py * s) < a / 2
                          and abs(-px * s + py * c) < b / 2
                          for px, py in pts) / sp ** 2
        return abs(got - exp) > 1e-12, f'compiled kernel {got} vs centre ' \
                                       f'count {exp}'
    return False, 'unknown kind'
