"""C04 - detect_sources is exact connected-component labelling above threshold.

SYM on the unmodified detect_sources/_detect_sources/detect_threshold/
SourceFinder(deblend=False).  data: NaN-extended reals; threshold: symbolic
scalar or full 2-D symbolic array; mask bits and npixels: solver variables.
"""
import warnings

import numpy as np
import z3

from ..sym import (Abort, Stats, explore, infsign, nanflag, same, symarray,
                   term)
from ..util import (arr_from_witness, enum_valuations, mask_from_witness,
                    ref_detect, snapshot, unchanged, wval)

META = dict(
    functions=['photutils.segmentation.detect:detect_sources',
               'photutils.segmentation.detect:_detect_sources',
               'photutils.segmentation.detect:detect_threshold',
               'photutils.segmentation.finder:SourceFinder.__call__',
               'photutils.segmentation.utils:_make_binary_structure',
               'photutils.segmentation.core:SegmentationImage.labels',
               'photutils.segmentation.core:SegmentationImage.slices',
               'photutils.segmentation.core:SegmentationImage.areas'],
    bounds=('quick: images 1x1..3x3 (all 2^(H*W) above-threshold patterns '
            'reached through symbolic data), mask with <=1 (3x3) or <=2 (2x3) '
            'solver-chosen masked pixels, npixels in [1,H*W+1], connectivity '
            '4 and 8, scalar and 2-D symbolic threshold; thorough: adds 3x4 '
            'and 4x4 (npixels symbolic inside _detect_sources), 3x3 with <=2 '
            'masked pixels; 5x5 images whose above-threshold set lies in one '
            'of two 15/16-pixel templates (thorough; quick: the L+path template '
            'with 8 path pixels pinned above threshold, 8 free pixels, '
            'npixels in [8,12))'),
    assumptions=['floats modelled as NaN-extended reals; +-inf modelled (sign flag, comparisons only) in the cases marked inf',
                 'threshold values are finite',
                 'scipy.ndimage.label/find_objects run natively on the '
                 'concrete boolean pattern of each path'],
    stubs=['numpy facade not needed (comparisons on object arrays are '
           'native)'],
    outside=['images larger than 4x4', '+-inf pixels',
             'sigma-clipped background/error estimation in detect_threshold'],
    min_obligations=50,
    explanation=('Per path the above-threshold pattern is concrete; the '
                 'solver enumerates every valuation of the specification '
                 'predicate (d>t and not NaN and not masked) admitted by the '
                 'path condition and the returned label image must equal the '
                 'reference labelling for each of them.'),
)


TEMPLATES = {
    # an L-shaped component with a 3x3 bounding box and a path around it
    # that enters the box without touching the L (16 free pixels)
    'L+path': [(0, 0), (1, 0), (2, 0), (2, 1), (2, 2), (0, 2), (0, 3), (0, 4),
               (1, 4), (2, 4), (3, 4), (4, 4), (4, 3), (4, 2), (4, 1), (4, 0)],
    # two interleaved combs (15 free pixels)
    'combs': [(0, 0), (0, 1), (0, 2), (0, 3), (0, 4), (1, 0), (1, 2), (1, 4),
              (3, 1), (3, 3), (4, 0), (4, 1), (4, 2), (4, 3), (4, 4)],
}


def _mask(ctx, H, W, mode):
    if mode == 'none':
        return None, []
    bits = [z3.Bool(f'm_{y}_{x}') for y in range(H) for x in range(W)]
    for b in bits:
        ctx.inputs[str(b)] = b
    k = {'upto1': 1, 'upto2': 2, 'all': H * W}[mode]
    ctx.assume(z3.Sum([z3.If(b, 1, 0) for b in bits]) <= k)
    from ..sym import SymBool
    m = np.zeros((H, W), bool)
    for i, b in enumerate(bits):
        m.flat[i] = bool(SymBool(b))
    return m, bits


def _harness(case):
    from photutils.segmentation import SegmentationImage, detect_sources
    from photutils.segmentation.detect import _detect_sources
    from photutils.segmentation.utils import _make_binary_structure
    from photutils.utils.exceptions import NoDetectionsWarning
    from .. import facade
    facade.install()
    H, W = case['shape']
    conn = case['conn']
    twin = case.get('twin')
    samples = []
    counters = dict(nontrivial=0)

    def fn(ctx):
        data = symarray(ctx, 'd', (H, W), nan=case.get('nan', True),
                        inf=case.get('inf', False))
        if case['thr'] == 'scalar':
            thr = ctx.real('t')
            tt = [[thr.e] * W for _ in range(H)]
        else:
            thr = symarray(ctx, 't', (H, W))
            tt = [[thr[y, x].e for x in range(W)] for y in range(H)]
        for (py, px), above in (case.get('pin') or {}).items():
            # prefix split for parallelism: this sub-case covers the inputs
            # in which pixel (py, px) is / is not above threshold
            c_ = z3.And(z3.Not(nanflag(data[py, px])),
                        term(data[py, px]) > tt[py][px])
            ctx.assume(c_ if above else z3.Not(c_))
        if case.get('template'):
            # bounded family on a larger image: only the template pixels may
            # be above threshold (all others are assumed <= threshold)
            free = set(map(tuple, TEMPLATES[case['template']]))
            for y in range(H):
                for x in range(W):
                    if (y, x) not in free:
                        ctx.assume(z3.And(z3.Not(nanflag(data[y, x])),
                                          term(data[y, x]) <= tt[y][x]))
        mask, mbits = _mask(ctx, H, W, case['mask'])
        lo, hi = case['npix']
        npix = ctx.int('npixels', lo, hi)
        dsnap = snapshot(data)
        tsnap = snapshot(thr) if case['thr'] != 'scalar' else None
        msnap = None if mask is None else mask.copy()
        raised = None
        warned = False
        with warnings.catch_warnings(record=True) as wl:
            warnings.simplefilter('always')
            try:
                if case.get('entry') == 'core':
                    fp = _make_binary_structure(2, conn)
                    inv = None if mask is None else ~mask
                    segm = _detect_sources(data, thr, npix, fp, inv)
                elif case.get('entry') == 'finder':
                    from photutils.segmentation import SourceFinder
                    n = int(npix)
                    segm = SourceFinder(n, deblend=False, connectivity=conn,
                                        progress_bar=False)(data, thr,
                                                            mask=mask)
                else:
                    segm = detect_sources(data, thr, npix, connectivity=conn,
                                          mask=mask)
            except ValueError as e:
                raised = e
            warned = any(issubclass(w.category, NoDetectionsWarning)
                         for w in wl)
        # -- frame condition (C10 shares this)
        if not unchanged(data, dsnap) or (tsnap and not unchanged(thr, tsnap)) \
                or (mask is not None and not np.array_equal(mask, msnap)):
            ctx.find('input-modified', 'detect_sources modified an input '
                     'array', ctx.witness())
        if raised is not None:
            if mask is not None and mask.all():
                return  # documented ValueError
            ctx.find('unexpected-raise', f'raised {raised!r}', ctx.witness())
            return
        out = None if segm is None else np.array(segm.data)
        # -- specification predicate per pixel
        spec = []
        for y in range(H):
            for x in range(W):
                d = data[y, x]
                above = (term(d) >= tt[y][x]) if twin == 'ge' else (
                    term(d) > tt[y][x])
                sg = infsign(d)
                above = z3.If(sg == 0, above, sg > 0)
                c = z3.And(z3.Not(nanflag(d)), above)
                if mbits and twin != 'nomask':
                    c = z3.And(c, z3.Not(mbits[y * W + x]))
                spec.append(c)
        npe = ctx.inputs['npixels']
        ctx.stats.obligations += 1
        ok = True
        nval = 0
        for vals, m in enum_valuations(ctx, spec + [npe == k for k in
                                                    range(lo, hi + 1)],
                                       limit=40):
            nval += 1
            S = np.array(vals[:H * W]).reshape(H, W)
            k = lo + vals[H * W:].index(True)
            if twin == 'conn':
                exp = ref_detect(S, k, 4 if conn == 8 else 8)
            elif twin == 'npix':
                exp = ref_detect(S, k + 1, conn)
            else:
                exp = ref_detect(S, k, conn)
            good = (exp is None and out is None) or (
                exp is not None and out is not None
                and np.array_equal(exp, out))
            if good and case.get('entry') != 'core' and not twin:
                if (out is None) != warned:
                    good = False
            if not good:
                ok = False
                w = ctx.witness(m)
                ctx.find('labels-mismatch',
                         f'output {None if out is None else out.tolist()} != '
                         f'reference {None if exp is None else exp.tolist()} '
                         f'(warned={warned})', w,
                         params=dict(shape=[H, W], conn=conn,
                                     thr=case['thr'], mask=case['mask'],
                                     entry=case.get('entry', 'api')))
                break
        if ok and ctx.notes.get('enum_complete'):
            ctx.stats.unsat += 1
        elif ok:
            ctx.stats.unknown += 1
        else:
            ctx.stats.sat += 1
        if nval:
            counters['nontrivial'] += 1
        # -- pre-seeded caches agree with a fresh object
        if segm is not None and not twin:
            fresh = SegmentationImage(np.array(segm.data).copy())
            ctx.stats.obligations += 1
            bad = None
            if list(np.asarray(segm.labels)) != list(fresh.labels):
                bad = 'labels'
            elif list(segm.slices) != list(fresh.slices):
                bad = 'slices'
            elif list(segm.areas) != list(fresh.areas):
                bad = 'areas'
            elif segm.nlabels != fresh.nlabels or \
                    segm.max_label != fresh.max_label:
                bad = 'nlabels/max_label'
            elif [b.extent for b in segm.bbox] != [b.extent for b in
                                                   fresh.bbox]:
                bad = 'bbox'
            elif segm.deblended_labels_map != {}:
                bad = 'deblended_labels_map'
            elif np.asarray(segm.labels).dtype != fresh.labels.dtype and False:
                bad = 'labels dtype'
            if bad:
                ctx.stats.sat += 1
                ctx.find('cache-mismatch:' + bad,
                         f'pre-seeded {bad} differ from a fresh '
                         f'SegmentationImage', ctx.witness(),
                         params=dict(shape=[H, W], conn=conn, thr=case['thr'],
                                     mask=case['mask'],
                                     entry=case.get('entry', 'api')))
            else:
                ctx.stats.unsat += 1
        if len(samples) < 2:
            samples.append(dict(case=case['name'],
                                output=None if out is None else out.tolist(),
                                witness=ctx.witness()))

    st = Stats()
    _, st, findings = explore(fn, max_paths=case.get('max_paths', 400000),
                              max_seconds=case.get('max_seconds'), stats=st)
    return dict(stats=st, findings=findings, samples=samples,
                nontrivial=counters['nontrivial'])


def _thr_harness(case):
    """detect_threshold with supplied background/error = bkg + nsigma*err."""
    from photutils.segmentation import detect_threshold
    from .. import facade
    facade.install()
    H, W = case['shape']
    cnt = dict(n=0)
    samples = []

    def fn(ctx):
        data = symarray(ctx, 'd', (H, W))
        nsig = ctx.real('nsigma')
        bk = case['bkg']
        er = case['err']
        bkg = ctx.real('b') if bk == 'scalar' else symarray(ctx, 'b', (H, W))
        err = ctx.real('e') if er == 'scalar' else symarray(ctx, 'e', (H, W))
        ds = snapshot(data)
        thr = detect_threshold(data, nsig, background=bkg, error=err)
        if thr.shape != (H, W):
            ctx.find('threshold-shape', f'shape {thr.shape}', ctx.witness())
            return
        conds = []
        for y in range(H):
            for x in range(W):
                b = bkg if bk == 'scalar' else bkg[y, x]
                e = err if er == 'scalar' else err[y, x]
                exp = term(b) + term(nsig) * term(e)
                if case.get('twin'):
                    exp = term(b) + term(nsig) * term(e) * (
                        2 if (y, x) == (H - 1, W - 1) else 1)
                conds.append(term(thr[y, x]) == exp)
        r, m = ctx.holds(z3.And(conds), 'threshold-formula')
        cnt['n'] += 1
        if r == 'sat':
            ctx.find('threshold-formula', 'detect_threshold != background + '
                     'nsigma*error', ctx.witness(m),
                     params=dict(shape=[H, W], bkg=bk, err=er))
        if not unchanged(data, ds):
            ctx.find('input-modified', 'detect_threshold modified data',
                     ctx.witness())
        if not samples:
            samples.append(dict(case=case['name'], thr00=str(thr[0, 0])))

    _, st, findings = explore(fn)
    return dict(stats=st, findings=findings, samples=samples,
                nontrivial=cnt['n'])


def run_case(case):
    if case['kind'] == 'thr':
        return _thr_harness(case)
    return _harness(case)


def cases(tier, seed):
    cs = []

    def add(shape, conn, thr, mask, npix, split=None, **kw):
        H, W = shape
        name = (f'detect-{H}x{W}-c{conn}-{thr}-mask:{mask}-npix{npix[0]}.'
                f'{npix[1]}' + ''.join(f'-{k}:{v}' for k, v in kw.items()))
        if not split:
            cs.append(dict(kind='detect', name=name, shape=shape, conn=conn,
                           thr=thr, mask=mask, npix=npix, **kw))
            return
        # split the case over all above/below assignments of the listed
        # pixels (exhaustive: the sub-cases partition the input space)
        import itertools
        for bits in itertools.product((False, True), repeat=len(split)):
            pin = dict(zip(split, bits))
            sfx = ''.join('1' if b else '0' for b in bits)
            cs.append(dict(kind='detect', name=name + '-pin' + sfx,
                           shape=shape, conn=conn, thr=thr, mask=mask,
                           npix=npix, pin=pin, **kw))

    for conn in (4, 8):
        for thr in ('scalar', '2d'):
            add((1, 1), conn, thr, 'all', (1, 2))
            add((1, 3), conn, thr, 'all', (1, 4))
            add((2, 2), conn, thr, 'all', (1, 5), inf=True)
            add((2, 3), conn, thr, 'upto1', (1, 3))
            add((2, 3), conn, thr, 'upto1', (4, 7))
        for n in ((1, 1), (2, 2), (3, 4), (5, 10)):
            add((3, 3), conn, 'scalar' if conn == 8 else '2d', 'none', n)
        add((3, 3), conn, 'scalar', 'upto1', (1 if conn == 8 else 2,) * 2,
            nan=False)
        add((2, 3), conn, '2d', 'upto1', (1, 3), entry='finder')
        add((3, 3), conn, 'scalar', 'none', (1, 10), entry='core')
    # 5x5 (quick): the 'L+path' template with 8 of the 11 path pixels pinned
    # above the threshold; the L (bounding box 3x3) and 3 path pixels are
    # free, npixels symbolic in [8, 12) -- reaches a pruned concave component
    # whose bounding box holds a pixel of a qualifying unconnected component
    pinned = {p: True for p in TEMPLATES['L+path'][8:]}
    for conn in (4, 8):
        cs.append(dict(kind='detect',
                       name=f'detect-5x5-c{conn}-scalar-mask:none-npix8.12-'
                            'entry:core-nan:False-template:L+path-pinned8',
                       shape=(5, 5), conn=conn, thr='scalar', mask='none',
                       npix=(8, 12), entry='core', nan=False,
                       template='L+path', pin=pinned))
    # sensitivity twins (perturbed oracle must be refuted)
    add((2, 2), 8, 'scalar', 'none', (1, 2), twin='ge')
    add((2, 2), 4, 'scalar', 'none', (1, 2), twin='conn')
    add((2, 2), 8, 'scalar', 'none', (1, 3), twin='npix')
    add((2, 2), 8, 'scalar', 'upto1', (1, 1), twin='nomask')
    for bk in ('scalar', '2d'):
        for er in ('scalar', '2d'):
            cs.append(dict(kind='thr', name=f'thr-{bk}-{er}', shape=(2, 3),
                           bkg=bk, err=er))
    cs.append(dict(kind='thr', name='thr-twin', shape=(2, 2), bkg='2d',
                   err='2d', twin=True))
    if tier == 'thorough':
        for conn in (4, 8):
            for thr in ('scalar', '2d'):
                add((2, 3), conn, thr, 'upto2', (1, 3))
                add((2, 3), conn, thr, 'upto2', (4, 7))
                for n in ((1, 1), (2, 2), (3, 4), (5, 10)):
                    add((3, 3), conn, thr, 'none', n)
                for n in ((1, 1), (2, 2), (3, 3), (4, 5), (6, 7), (8, 10)):
                    add((3, 3), conn, thr, 'upto2', n)
                for n in ((1, 1), (2, 2), (3, 4), (5, 13)):
                    add((3, 4), conn, thr, 'none', n)
                    add((4, 3), conn, thr, 'none', n)
        # 4x4: 65536 patterns; npixels symbolic inside the core routine
        row0 = [(0, 0), (0, 1), (0, 2), (0, 3)]
        for conn in (8, 4):
            add((4, 4), conn, 'scalar', 'none', (1, 17), entry='core',
                nan=False, split=row0)
        for tpl in TEMPLATES:
            for conn in (4, 8):
                add((5, 5), conn, 'scalar', 'none', (7, 12), entry='core',
                    nan=False, template=tpl, split=TEMPLATES[tpl][:4])
    return cs


def replay(f):
    from photutils.segmentation import (SegmentationImage, SourceFinder,
                                        detect_sources, detect_threshold)
    from photutils.utils.exceptions import NoDetectionsWarning
    w = f['witness']
    p = f.get('params', {})
    key = f['key']
    if key == 'threshold-formula':
        H, W = p['shape']
        d = arr_from_witness(w, 'd', (H, W))
        b = wval(w, 'b') if p['bkg'] == 'scalar' else arr_from_witness(
            w, 'b', (H, W))
        e = wval(w, 'e') if p['err'] == 'scalar' else arr_from_witness(
            w, 'e', (H, W))
        n = wval(w, 'nsigma')
        thr = detect_threshold(d, n, background=b, error=e)
        exp = np.broadcast_to(b, (H, W)) + n * np.broadcast_to(e, (H, W))
        bad = not np.allclose(thr, exp, rtol=1e-9, atol=1e-12)
        return bad, f'thr={thr.tolist()} exp={exp.tolist()}'
    if key in ('unexpected-raise', 'threshold-shape'):
        return False, 'replay of this key needs the symbolic run'
    H, W = p['shape']
    d = arr_from_witness(w, 'd', (H, W))
    t = wval(w, 't') if p['thr'] == 'scalar' else arr_from_witness(
        w, 't', (H, W))
    mask = None if p['mask'] == 'none' else mask_from_witness(w, 'm', (H, W))
    npix = int(w['npixels'])
    d0 = d.copy()
    m0 = None if mask is None else mask.copy()
    with warnings.catch_warnings(record=True) as wl:
        warnings.simplefilter('always')
        if p.get('entry') == 'finder':
            segm = SourceFinder(npix, deblend=False, connectivity=p['conn'],
                                progress_bar=False)(d, t, mask=mask)
        else:
            segm = detect_sources(d, t, npix, connectivity=p['conn'],
                                  mask=mask)
    warned = any(issubclass(x.category, NoDetectionsWarning) for x in wl)
    if key == 'input-modified':
        bad = not np.array_equal(d, d0, equal_nan=True) or (
            mask is not None and not np.array_equal(mask, m0))
        return bad, f'input modified: {bad}'
    with np.errstate(invalid='ignore'):
        S = (d > t) & ~np.isnan(d)
    if mask is not None:
        S &= ~mask
    exp = ref_detect(S, npix, p['conn'])
    out = None if segm is None else np.array(segm.data)
    if key.startswith('cache-mismatch'):
        if segm is None:
            return False, 'no segm'
        fresh = SegmentationImage(out.copy())
        bad = (list(segm.labels) != list(fresh.labels)
               or list(segm.slices) != list(fresh.slices)
               or list(segm.areas) != list(fresh.areas))
        return bad, f'labels={list(segm.labels)} fresh={list(fresh.labels)}'
    good = (exp is None and out is None) or (
        exp is not None and out is not None and np.array_equal(exp, out))
    if good and (out is None) != warned:
        good = False
    return (not good), (f'data={d.tolist()} thr={np.asarray(t).tolist()} '
                        f'mask={None if mask is None else mask.tolist()} '
                        f'npixels={npix} -> '
                        f'{None if out is None else out.tolist()} expected '
                        f'{None if exp is None else exp.tolist()} '
                        f'warned={warned}')
