"""C12 - PSF photometry bookkeeping (and exact recovery on rendered scenes as a
concrete oracle).

The fits are Levenberg-Marquardt float code, so scenes are concrete; the
*bookkeeping* inputs - input row order, supplied group_id partition or
grouper, masked pixels, fixed parameters, which driver - are solver variables
enumerated exhaustively.  SourceGrouper is compared with a union-find model on
a solver-chosen half-integer lattice.
"""
import itertools
import warnings

import numpy as np
import z3

from ..sym import Stats, explore

META = dict(
    functions=['photutils.psf.photometry:PSFPhotometry.__call__',
               'photutils.psf.photometry:PSFPhotometry._prepare_init_params',
               'photutils.psf.photometry:PSFPhotometry._fit_sources',
               'photutils.psf.photometry:PSFPhotometry._ungroup',
               'photutils.psf.photometry:PSFPhotometry._order_by_id',
               'photutils.psf.photometry:PSFPhotometry._calc_fit_metrics',
               'photutils.psf.photometry:IterativePSFPhotometry.__call__',
               'photutils.psf.groupers:SourceGrouper._group_sources'],
    bounds=('scene: 5 Gaussian-PRF sources (two blended pairs + one isolated) '
            'rendered noise-free on 34x36; all 120 input row orders x '
            '{supplied group_id for each of 6 interleaved partitions, '
            'SourceGrouper, no grouping}; masks: none / pixels near a source '
            '/ a row through a source; fixed-parameter choice; flux scaling '
            'k in {1, 3.5, 1e-3}; SourceGrouper: 2-4 points on a half-integer '
            '5x5 lattice with min_separation in {1, 1.5, 2, 2.5}'),
    assumptions=['finite-domain exploration by the solver; fits are concrete '
                 'float computations compared with tolerances (positions '
                 '1e-4 px, fluxes 1e-6 relative for order invariance, 1e-3 '
                 'relative for recovery)',
                 'scipy fclusterdata compared with a union-find on pairwise '
                 'distance <= min_separation'],
    stubs=[],
    outside=['other scenes / PSF models (image-based, gridded)',
             'xy_bounds flag semantics', 'noise'],
    min_obligations=60,
)

TRUTH = dict(x=[8.0, 11.1, 22.0, 25.2, 15.0],
             y=[9.0, 10.4, 20.0, 21.3, 28.0],
             flux=[100.0, 200.0, 300.0, 400.0, 500.0])
SHAPE = (34, 36)
FWHM = 2.8
_cache = {}


def _scene(k=1.0):
    from astropy.table import QTable
    from photutils.datasets import make_model_image
    from photutils.psf import CircularGaussianPRF
    if k in _cache:
        return _cache[k]
    src = QTable(dict(x_0=TRUTH['x'], y_0=TRUTH['y'],
                      flux=np.array(TRUTH['flux']) * k))
    data = make_model_image(SHAPE, CircularGaussianPRF(fwhm=FWHM), src,
                            model_shape=(21, 21))
    _cache[k] = data
    return data


PARTS = [[1, 1, 2, 2, 3], [1, 2, 1, 2, 3], [3, 1, 3, 2, 1], [1, 1, 1, 1, 1],
         [1, 2, 3, 4, 5], [2, 2, 1, 1, 1]]


def _run_phot(order, grouping, maskk, k=1.0, fixed=False, driver='basic'):
    from astropy.table import QTable
    from photutils.detection import DAOStarFinder
    from photutils.psf import (CircularGaussianPRF, IterativePSFPhotometry,
                               PSFPhotometry, SourceGrouper)
    data = _scene(k)
    model = CircularGaussianPRF(fwhm=FWHM)
    if fixed:
        model.x_0.fixed = True
    init = QTable(dict(x=[TRUTH['x'][i] + 0.2 for i in order],
                       y=[TRUTH['y'][i] - 0.15 for i in order]))
    grouper = None
    if isinstance(grouping, int):
        init['group_id'] = [PARTS[grouping][i] for i in order]
    elif grouping == 'grouper':
        grouper = SourceGrouper(5.0)
    mask = None
    if maskk == 'near':
        mask = np.zeros(SHAPE, bool)
        mask[9, 9] = mask[10, 8] = True
    elif maskk == 'row':
        mask = np.zeros(SHAPE, bool)
        mask[20, :] = True
    elif maskk == 'edge':
        mask = np.zeros(SHAPE, bool)
        mask[27:29, 14] = True
    cls = PSFPhotometry if driver == 'basic' else IterativePSFPhotometry
    kw = {} if driver == 'basic' else dict(maxiters=1,
                                           finder=DAOStarFinder(1e9, FWHM))
    ph = cls(model, (5, 5), grouper=grouper, aperture_radius=4, **kw)
    with warnings.catch_warnings():
        warnings.simplefilter('ignore')
        tbl = ph(data, mask=mask, init_params=init)
    return tbl, init, mask, ph


def _check_phot(order, grouping, maskk, fixed, twin=False):
    tbl, init, mask, ph = _run_phot(order, grouping, maskk, fixed=fixed)
    n = len(order)
    if list(tbl['id']) != list(range(1, n + 1)):
        return f'ids {list(tbl["id"])}'
    # rows are in input order: row r describes truth source order[r]
    tx = np.array([TRUTH['x'][i] for i in order])
    ty = np.array([TRUTH['y'][i] for i in order])
    tf = np.array([TRUTH['flux'][i] for i in order])
    if fixed:
        if not np.array_equal(np.asarray(tbl['x_fit']),
                              np.asarray(init['x'])):
            return 'fixed parameter x changed from its initial value'
    else:
        # blended pairs are recovered exactly only when fitted together
        grouped_ok = grouping == 'grouper' or grouping in (0, 3, 5)
        tol = 2e-3 if grouped_ok else 1.5
        if not (np.allclose(tbl['x_fit'], tx, atol=tol)
                and np.allclose(tbl['y_fit'], ty, atol=tol)):
            return (f'positions not recovered / rows not in input order: '
                    f'x_fit={np.round(np.asarray(tbl["x_fit"]), 3)} '
                    f'expected {tx}')
        if maskk == 'none' and grouped_ok:
            # blended pairs fitted together: fluxes recovered
            if not np.allclose(tbl['flux_fit'], tf, rtol=2e-3):
                return (f'fluxes not recovered: '
                        f'{np.round(np.asarray(tbl["flux_fit"]), 2)} '
                        f'expected {tf}')
    # group bookkeeping
    gid = np.asarray(tbl['group_id'])
    gsz = np.asarray(tbl['group_size'])
    if isinstance(grouping, int):
        exp = np.array([PARTS[grouping][i] for i in order])
        if not np.array_equal(gid, exp):
            return f'group_id {gid} != supplied {exp}'
    elif grouping == 'grouper':
        # clusters {0,1}, {2,3}, {4}; ids by first appearance
        cl = {0: 'a', 1: 'a', 2: 'b', 3: 'b', 4: 'c'}
        seen = {}
        exp = []
        for i in order:
            seen.setdefault(cl[i], len(seen) + 1)
            exp.append(seen[cl[i]])
        if not np.array_equal(gid, exp):
            return f'group_id {gid} != single-linkage clusters {exp}'
    else:
        if not np.array_equal(gid, np.arange(1, n + 1)):
            return f'group_id {gid} without grouping'
    cnt = np.array([np.sum(gid == g) for g in gid])
    if twin:
        cnt = cnt[::-1]                      # perturbed oracle
    if not np.array_equal(gsz, cnt):
        return f'group_size {gsz} != number of rows sharing the group {cnt}'
    # npixfit = unmasked pixels of the fit_shape window within the image
    for r in range(n):
        xc = int(np.floor(init['x'][r] + 0.5))
        yc = int(np.floor(init['y'][r] + 0.5))
        ys = slice(max(yc - 2, 0), min(yc + 3, SHAPE[0]))
        xs = slice(max(xc - 2, 0), min(xc + 3, SHAPE[1]))
        npx = (ys.stop - ys.start) * (xs.stop - xs.start)
        if mask is not None:
            npx -= int(mask[ys, xs].sum())
        if int(tbl['npixfit'][r]) != npx:
            return (f'npixfit of row {r} is {tbl["npixfit"][r]}, expected '
                    f'{npx}')
    return None


def _bounds_check(order, grouping, bound, off):
    """xy_bounds: every fitted position stays within the bound of its initial
    position (a source started `off` pixels from the truth, farther than the
    bound, must stop at the bound), for every member of every group."""
    from astropy.table import QTable
    from photutils.psf import (CircularGaussianPRF, PSFPhotometry,
                               SourceGrouper)
    data = _scene(1.0)
    model = CircularGaussianPRF(fwhm=FWHM)
    x0 = np.array([TRUTH['x'][i] for i in order], float)
    y0 = np.array([TRUTH['y'][i] for i in order], float)
    # start the first two listed sources off the truth, in x and in y
    x0[0] += off
    y0[1] -= off
    init = QTable(dict(x=x0, y=y0))
    grouper = None
    if isinstance(grouping, int):
        init['group_id'] = [PARTS[grouping][i] for i in order]
    elif grouping == 'grouper':
        grouper = SourceGrouper(5.0)
    ph = PSFPhotometry(model, (5, 5), grouper=grouper, aperture_radius=4,
                       xy_bounds=(bound, bound))
    with warnings.catch_warnings():
        warnings.simplefilter('ignore')
        tbl = ph(data, init_params=init)
    dx = np.abs(np.asarray(tbl['x_fit']) - x0)
    dy = np.abs(np.asarray(tbl['y_fit']) - y0)
    if (dx > bound + 1e-9).any() or (dy > bound + 1e-9).any():
        r = int(np.argmax(np.maximum(dx, dy)))
        return (f'row {r}: fitted position ({tbl["x_fit"][r]:.3f}, '
                f'{tbl["y_fit"][r]:.3f}) is farther than xy_bounds={bound} '
                f'from its initial position ({x0[r]}, {y0[r]})')
    if list(tbl['id']) != list(range(1, len(order) + 1)):
        return f'ids {list(tbl["id"])}'
    return None


def _perm_invariance(grouping, maskk):
    """Per-source results do not depend on the input row order."""
    base, *_ = _run_phot([0, 1, 2, 3, 4], grouping, maskk)
    ref = {i: (base['x_fit'][i], base['y_fit'][i], base['flux_fit'][i])
           for i in range(5)}
    return ref


def _run_book(case):
    cnt = dict(n=0)
    samples = []
    perms = list(itertools.permutations(range(5)))
    sub = perms[case['lo']:case['hi']]

    def fn(ctx):
        order = list(ctx.choice('order', sub))
        grouping = ctx.choice('grouping', list(range(len(PARTS)))
                              + ['grouper', 'none'])
        maskk = ctx.choice('mask', case['masks'])
        fixed = ctx.flag('fixed_x') if case.get('fixed') else False
        ctx.stats.obligations += 1
        cnt['n'] += 1
        try:
            msg = _check_phot(order, grouping, maskk, fixed,
                              twin=bool(case.get('twin')))
        except Exception as e:  # noqa
            msg = f'raised {e!r}'
        params = dict(kind='book', order=order, grouping=grouping,
                      mask=maskk, fixed=fixed)
        if msg is None:
            ctx.stats.unsat += 1
        else:
            ctx.stats.sat += 1
            gk = 'gid' if isinstance(grouping, int) else grouping
            ctx.find(f'psf:{msg.split()[0]}:{gk}', f'order {order}, grouping '
                     f'{grouping}, mask {maskk}: {msg}', ctx.witness(),
                     params=params)
        if len(samples) < 2:
            samples.append(params)

    _, st, f = explore(fn)
    return dict(stats=st, findings=f, samples=samples, nontrivial=cnt['n'])


def _misc_check(what, arg):
    if what == 'order-invariance':
        grouping, maskk, order = arg
        ref = _perm_invariance(grouping, maskk)
        tbl, *_ = _run_phot(order, grouping, maskk)
        for r, i in enumerate(order):
            got = (tbl['x_fit'][r], tbl['y_fit'][r], tbl['flux_fit'][r])
            if not np.allclose(got, ref[i], rtol=1e-6, atol=1e-6):
                return (f'source {i} fitted as {got} in order {order} but '
                        f'{ref[i]} in the natural order')
        return None
    if what == 'bounds':
        return _bounds_check(*arg)
    if what == 'scale':
        k, grouping = arg
        t1, *_ = _run_phot([0, 1, 2, 3, 4], grouping, 'none')
        tk, *_ = _run_phot([0, 1, 2, 3, 4], grouping, 'none', k=k)
        if not np.allclose(np.asarray(tk['flux_fit']),
                           k * np.asarray(t1['flux_fit']), rtol=1e-5):
            return f'fluxes do not scale with k={k}'
        if not np.allclose(tk['x_fit'], t1['x_fit'], atol=1e-4):
            return f'positions change with k={k}'
        return None
    if what == 'iterative':
        grouping, maskk, order = arg
        t1, *_ = _run_phot(order, grouping, maskk, driver='basic')
        t2, *_ = _run_phot(order, grouping, maskk, driver='iter')
        if len(t1) != len(t2):
            return f'{len(t2)} rows from IterativePSFPhotometry(maxiters=1) ' \
                   f'vs {len(t1)}'
        for c in ('id', 'group_id', 'group_size', 'x_fit', 'y_fit',
                  'flux_fit', 'npixfit', 'flags'):
            if c in t1.colnames and not np.allclose(
                    np.asarray(t1[c], float), np.asarray(t2[c], float),
                    rtol=1e-9, atol=1e-9, equal_nan=True):
                return f'column {c} differs between the two drivers'
        return None
    if what == 'iterative-finder':
        return _iter_finder_check(arg)
    raise ValueError(what)


def _iter_finder_check(thr):
    """maxiters=1 with a finder whose residual contains a new detection."""
    from astropy.table import QTable
    from photutils.datasets import make_model_image
    from photutils.detection import DAOStarFinder
    from photutils.psf import (CircularGaussianPRF, IterativePSFPhotometry,
                               PSFPhotometry)
    model = CircularGaussianPRF(fwhm=3.0)
    src = QTable(dict(x_0=[12.0, 16.0, 30.0], y_0=[12.0, 13.0, 25.0],
                      flux=[2000.0, 120.0, 1500.0]))
    data = make_model_image((40, 42), model, src, model_shape=(25, 25))
    finder = DAOStarFinder(thr, 3.0)
    with warnings.catch_warnings():
        warnings.simplefilter('ignore')
        p1 = PSFPhotometry(model, (5, 5), finder=finder, aperture_radius=4)
        t1 = p1(data)
        res = p1.make_residual_image(data, psf_shape=(25, 25))
        new = finder(res)
        p2 = IterativePSFPhotometry(model, (5, 5), finder=finder,
                                    aperture_radius=4, maxiters=1)
        t2 = p2(data)
    if new is None:
        return 'VACUOUS'
    if len(t1) != len(t2):
        return (f'IterativePSFPhotometry(maxiters=1) returned {len(t2)} rows,'
                f' PSFPhotometry {len(t1)} (the residual contains '
                f'{len(new)} further detections)')
    for c in ('x_fit', 'y_fit', 'flux_fit'):
        if not np.allclose(np.asarray(t1[c]), np.asarray(t2[c]), rtol=1e-9):
            return f'column {c} differs'
    return None


def _run_misc(case):
    cnt = dict(n=0)
    samples = []
    vac = dict(n=0, tot=0)

    def fn(ctx):
        what = case['what']
        if what == 'order-invariance':
            arg = (ctx.choice('grouping', [0, 1, 2, 'grouper', 'none']),
                   ctx.choice('mask', ['none', 'near']),
                   list(ctx.choice('order', [(4, 3, 2, 1, 0),
                                             (2, 0, 4, 1, 3),
                                             (1, 3, 0, 2, 4)])))
        elif what == 'bounds':
            arg = (list(ctx.choice('order', [(0, 1, 2, 3, 4), (1, 0, 3, 2, 4),
                                             (3, 4, 0, 2, 1)])),
                   ctx.choice('grouping', [0, 1, 3, 'grouper', 'none']),
                   ctx.choice('bound', [0.5, 1.0]),
                   ctx.choice('off', [1.6, -1.3]))
        elif what == 'scale':
            arg = (ctx.choice('k', [3.5, 1e-3, 250.0, 1e-9]),
                   ctx.choice('grouping', [0, 'grouper', 'none']))
        elif what == 'iterative':
            arg = (ctx.choice('grouping', [0, 1, 'none']),
                   ctx.choice('mask', ['none', 'row']),
                   list(ctx.choice('order', [(0, 1, 2, 3, 4),
                                             (3, 1, 4, 0, 2)])))
        else:
            arg = ctx.choice('thr', [30.0, 10.0, 3.0])
        ctx.stats.obligations += 1
        cnt['n'] += 1
        msg = _misc_check(what, arg)
        vac['tot'] += 1
        if msg == 'VACUOUS':
            vac['n'] += 1
            msg = None
        if msg is None:
            ctx.stats.unsat += 1
        else:
            ctx.stats.sat += 1
            key = f'psf:{what}'
            if what == 'scale':
                # one key per scale factor and grouping (known findings are
                # listed per input, see known_findings.txt)
                key = f'psf:scale:k={arg[0]:g}:grouping={arg[1]}'
            ctx.find(key, f'{arg}: {msg}', ctx.witness(),
                     params=dict(kind='misc', what=what, arg=arg))
        if len(samples) < 2:
            samples.append(dict(what=what, arg=arg))

    _, st, f = explore(fn)
    if case['what'] == 'iterative-finder' and vac['n'] == vac['tot']:
        raise RuntimeError('iterative-finder scenario is vacuous: the '
                           'residual image contains no new detection')
    return dict(stats=st, findings=f, samples=samples, nontrivial=cnt['n'])


# ---- SourceGrouper ------------------------------------------------------------
def _grouper_check(pts, sep):
    from photutils.psf import SourceGrouper
    x = np.array([p[0] / 2 for p in pts])
    y = np.array([p[1] / 2 for p in pts])
    got = SourceGrouper(sep)(x, y)
    n = len(pts)
    parent = list(range(n))

    def find(a):
        while parent[a] != a:
            a = parent[a]
        return a
    for i in range(n):
        for j in range(i + 1, n):
            if np.hypot(x[i] - x[j], y[i] - y[j]) <= sep:
                parent[find(i)] = find(j)
    seen = {}
    exp = []
    for i in range(n):
        seen.setdefault(find(i), len(seen) + 1)
        exp.append(seen[find(i)])
    if list(got) != exp:
        return f'groups {list(got)} != single-linkage clusters {exp}'
    return None


def _run_grouper(case):
    cnt = dict(n=0)
    samples = []
    n = case['n']

    def fn(ctx):
        pts = []
        for k in range(n):
            px = ctx.int(f'px{k}', 0, case.get('lat', 4)).__index__()
            py = ctx.int(f'py{k}', 0, case.get('lat', 4)).__index__()
            pts.append((px, py))
        if len(set(pts)) != n:
            return
        sep = ctx.choice('sep', [1.0, 1.5, 2.0, 2.5])
        ctx.stats.obligations += 1
        cnt['n'] += 1
        msg = _grouper_check(pts, sep)
        if msg is None:
            ctx.stats.unsat += 1
        else:
            ctx.stats.sat += 1
            ctx.find('grouper', f'points {pts} (half pixels), '
                     f'min_separation {sep}: {msg}', ctx.witness(),
                     params=dict(kind='grouper', pts=pts, sep=sep))
        if len(samples) < 2:
            samples.append(dict(pts=pts, sep=sep))

    _, st, f = explore(fn)
    return dict(stats=st, findings=f, samples=samples, nontrivial=cnt['n'])


def run_case(case):
    return dict(book=_run_book, misc=_run_misc,
                grouper=_run_grouper)[case['kind']](case)


def cases(tier, seed):
    cs = []
    step = 10 if tier == 'quick' else 6
    rng = range(0, 120, step) if tier == 'thorough' else \
        range((seed * 7) % 10, 120, 10)
    if tier == 'quick':
        # 12 chunks of one permutation each x all groupings x masks
        for lo in rng:
            cs.append(dict(kind='book', name=f'bookkeeping-perm{lo}', lo=lo,
                           hi=lo + 1, masks=['none', 'near', 'row', 'edge'],
                           fixed=True))
    else:
        for lo in range(0, 120, 6):
            cs.append(dict(kind='book', name=f'bookkeeping-perm{lo}-{lo + 6}',
                           lo=lo, hi=lo + 6,
                           masks=['none', 'near', 'row', 'edge'], fixed=True))
    cs.append(dict(kind='book', name='bookkeeping-twin', lo=7, hi=8,
                   masks=['none'], twin=True))
    for w in ('order-invariance', 'scale', 'iterative', 'iterative-finder',
              'bounds'):
        cs.append(dict(kind='misc', name=f'psf-{w}', what=w))
    cs.append(dict(kind='grouper', name='grouper-2', n=2))
    cs.append(dict(kind='grouper', name='grouper-3', n=3, lat=2))
    if tier == 'thorough':
        cs.append(dict(kind='grouper', name='grouper-3-full', n=3, lat=4))
        cs.append(dict(kind='grouper', name='grouper-4', n=4, lat=2))
    return cs


def replay(f):
    p = f['params']
    if p['kind'] == 'book':
        try:
            msg = _check_phot(p['order'], p['grouping'], p['mask'],
                              p['fixed'])
        except Exception as e:  # noqa
            msg = f'raised {e!r}'
        return msg is not None, str(msg)
    if p['kind'] == 'misc':
        a = p['arg']
        if isinstance(a, list):
            a = tuple(tuple(x) if isinstance(x, list) else x for x in a)
            if p['what'] in ('order-invariance', 'iterative'):
                a = (a[0], a[1], list(a[2]))
        msg = _misc_check(p['what'], a)
        return msg not in (None, 'VACUOUS'), str(msg)
    msg = _grouper_check([tuple(q) for q in p['pts']], p['sep'])
    return msg is not None, str(msg)
