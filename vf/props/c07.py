"""C07 - SourceCatalog measurements equal their definitions on the segment
pixels.  SYM on the unmodified SourceCatalog through the numpy facade.
"""
import warnings

import numpy as np
import z3

from ..sym import (Stats, SymBool, SymReal, const, explore, nanflag,
                   poly_equal, same, symarray, term)
from ..util import arr_from_witness, mask_from_witness, snapshot, unchanged

META = dict(
    functions=['photutils.segmentation.catalog:SourceCatalog.__init__',
               'photutils.segmentation.catalog:SourceCatalog._cutout_total_masks',
               'photutils.segmentation.catalog:SourceCatalog._moment_data_cutouts',
               'photutils.segmentation.catalog:SourceCatalog.segment_flux',
               'photutils.segmentation.catalog:SourceCatalog.segment_fluxerr',
               'photutils.segmentation.catalog:SourceCatalog.area',
               'photutils.segmentation.catalog:SourceCatalog.segment_area',
               'photutils.segmentation.catalog:SourceCatalog.min_value',
               'photutils.segmentation.catalog:SourceCatalog.max_value',
               'photutils.segmentation.catalog:SourceCatalog.minval_index',
               'photutils.segmentation.catalog:SourceCatalog.maxval_index',
               'photutils.segmentation.catalog:SourceCatalog.moments',
               'photutils.segmentation.catalog:SourceCatalog.moments_central',
               'photutils.segmentation.catalog:SourceCatalog._covariance',
               'photutils.segmentation.catalog:SourceCatalog.covariance_eigvals',
               'photutils.segmentation.catalog:SourceCatalog.orientation',
               'photutils.utils._moments:_moments_central',
               'photutils.segmentation.catalog:SourceCatalog.cutout_centroid',
               'photutils.segmentation.catalog:SourceCatalog.centroid',
               'photutils.segmentation.catalog:SourceCatalog.background_sum',
               'photutils.segmentation.catalog:SourceCatalog.background_mean',
               'photutils.segmentation.catalog:use_detcat',
               'photutils.utils._moments:_moments'],
    bounds=('symbolic data / error / background (data NaN-extended, <=1 '
            'NaN), <=1 masked pixel on the images of 6 segmentation maps '
            '(3x3..4x5: touching, nested in one bounding box, single-pixel, '
            'edge-hugging, non-consecutive labels {2,5,9}, disconnected '
            'label); optional second symbolic array as convolved data; '
            'optional detection catalog; label renumbering and row '
            'reordering compared by solver equality; second-order central '
            'moments as rational identities (cross-multiplied, vf/ratnf.py); '
            'concrete shape family: one 36x44 scene (rotated ellipses, '
            '1-pixel-wide line, single pixel, block) x mask {none, through, '
            'fully masked source} x NaN x negative pixels x convolved data: '
            '17 shape columns against their textbook definitions'),
    assumptions=['floats as NaN-extended reals, no +-inf',
                 'moments use the (convolved) data with negative pixels set '
                 'to 0 as documented in _moment_data_cutouts'],
    stubs=['numpy facade'],
    outside=['covariance / ellipse parameters for symbolic data (LAPACK '
             'eigenvalues, arctan2, Quantity): decided on the concrete shape '
             'family only; kron_*, fluxfrac_radius, gini, perimeter, '
             'centroid_win/quad',
             'local background value itself (only the relation '
             'segment_flux + area*local_background = sum(data) is checked, '
             'on concrete scenes)'],
    min_obligations=30,
)

SEGMS = {
    'touching': np.array([[1, 1, 2], [1, 2, 2], [0, 0, 2]]),
    'nested': np.array([[1, 1, 1, 1], [1, 0, 3, 1], [1, 0, 0, 1],
                        [1, 1, 1, 1]]),
    'single-edge': np.array([[4, 0, 0, 0], [0, 0, 2, 2], [7, 7, 0, 2]]),
    'gaps': np.array([[2, 2, 0, 9], [0, 0, 0, 9], [5, 5, 5, 0]]),
    'disconnected': np.array([[3, 0, 3], [0, 1, 0], [3, 1, 1]]),
    # a diagonal two-pixel label: its bounding box holds non-segment pixels
    'diag': np.array([[4, 0, 0], [0, 4, 2], [0, 2, 2]]),
    'wide': np.array([[0, 1, 1, 0, 2], [1, 1, 0, 2, 2], [0, 0, 0, 0, 2],
                      [6, 6, 6, 0, 0]]),
}


def _props(cat, minmax=True):
    out = {}
    for p in ('label', 'segment_flux', 'segment_fluxerr', 'area',
              'segment_area', 'min_value', 'max_value', 'minval_xindex',
              'minval_yindex', 'maxval_xindex', 'maxval_yindex',
              'bbox_xmin', 'bbox_xmax', 'bbox_ymin', 'bbox_ymax',
              'xcentroid', 'ycentroid', 'background_sum',
              'background_mean', 'moments', 'cutout_centroid',
              'moments_central'):
        if not minmax and p.startswith(('minval_', 'maxval_')):
            continue
        v = getattr(cat, p)
        v = getattr(v, 'value', v)
        out[p] = v
    return out


def _run(case):
    from .. import facade
    facade.install()
    from photutils.segmentation import SegmentationImage, SourceCatalog
    segm0 = SEGMS[case['segm']]
    H, W = segm0.shape
    twin = case.get('twin')
    cnt = dict(n=0)
    samples = []

    def fn(ctx):
        data = symarray(ctx, 'd', (H, W), nan=case.get('nan', True))
        if case.get('nan', True):
            ctx.assume(z3.Sum([z3.If(nanflag(v), 1, 0)
                               for v in data.flat]) <= 1)
        err = symarray(ctx, 'e', (H, W))
        bkg = symarray(ctx, 'b', (H, W))
        conv = symarray(ctx, 'c', (H, W)) if case.get('conv') else None
        # bound on the number of negative pixels of the moment image (each
        # one is a fork in _moment_data_cutouts)
        msrc = conv if conv is not None else data
        if not case.get('detcat'):
            ctx.assume(z3.Sum([z3.If(term(v) < 0, 1, 0)
                               for v in msrc.flat]) <= case.get('negmax', 1))
        mask = None
        if case['mask']:
            bits = [z3.Bool(f'm_{y}_{x}') for y in range(H) for x in range(W)]
            for b in bits:
                ctx.inputs[str(b)] = b
            ctx.assume(z3.Sum([z3.If(b, 1, 0) for b in bits]) <= 1)
            mask = np.zeros((H, W), bool)
            for i, b in enumerate(bits):
                mask.flat[i] = bool(SymBool(b))
        snaps = [snapshot(a) for a in (data, err, bkg)]
        ms = None if mask is None else mask.copy()
        segarr = segm0.copy()
        with warnings.catch_warnings():
            warnings.simplefilter('ignore')
            detcat = None
            if case.get('detcat'):
                det = symarray(ctx, 'c', (H, W))
                ctx.assume(z3.Sum([z3.If(term(v) < 0, 1, 0)
                                   for v in det.flat]) <= case.get('negmax',
                                                                   1))
                conv = None
                detcat = SourceCatalog(det, SegmentationImage(segarr.copy()),
                                       mask=mask, progress_bar=False)
            cat = SourceCatalog(data, SegmentationImage(segarr.copy()),
                                error=err, background=bkg, mask=mask,
                                convolved_data=conv, detection_cat=detcat,
                                progress_bar=False)
            got = _props(cat, case.get('minmax', False))
        mom_src = det if case.get('detcat') else (conv if conv is not None
                                                  else data)
        params = dict(segm=case['segm'], mask=case['mask'],
                      conv=bool(case.get('conv')),
                      detcat=bool(case.get('detcat')))
        labels = [int(l) for l in np.unique(segarr[segarr > 0])]
        groups = {}

        def add(lbl, c):
            groups.setdefault(lbl, []).append(c)

        add('labels', z3.BoolVal([int(v) for v in np.atleast_1d(
            got['label'])] == labels))
        for k, lab in enumerate(labels):
            ys, xs = np.nonzero(segarr == lab)
            pix = list(zip(ys.tolist(), xs.tolist()))
            G = [(y, x) for y, x in pix
                 if not (mask is not None and mask[y, x]
                         and twin != 'nomask')
                 and not bool(data[y, x].isnan())]
            g = lambda p: np.atleast_1d(got[p])[k]  # noqa
            add('bbox', z3.BoolVal(
                (int(g('bbox_xmin')), int(g('bbox_xmax')),
                 int(g('bbox_ymin')), int(g('bbox_ymax')))
                == (min(xs), max(xs), min(ys), max(ys))))
            add('segment_area', z3.BoolVal(float(g('segment_area'))
                                           == len(pix)))
            # pixels that define the (detection-image based) shape quantities
            # (documented: non-finite data values are always masked, also
            # for the convolved data; a detection catalog has its own data)
            Gm = [(y, x) for y, x in pix
                  if not (mask is not None and mask[y, x])
                  and not bool(mom_src[y, x].isnan())
                  and (case.get('detcat')
                       or not bool(data[y, x].isnan()))]

            def isnan_(v):
                return bool(v.isnan()) if isinstance(v, SymReal) else \
                    bool(np.isnan(float(v)))
            if not G:
                for p in ('segment_flux', 'min_value', 'max_value',
                          'background_sum'):
                    add(p + '-nan-when-fully-masked',
                        z3.BoolVal(isnan_(g(p))))
            if not (Gm if case.get('detcat') else G):
                for p in ('area', 'xcentroid', 'ycentroid'):
                    add(p + '-nan-when-fully-masked',
                        z3.BoolVal(isnan_(g(p))))
            if not G:
                continue
            # with a detection catalog the (shape-like) area is documented to
            # come from the detection image
            if case.get('detcat'):
                na = len([p for p in pix if not (mask is not None and mask[p])
                          and not bool(det[p].isnan())])
            else:
                na = len(G)
            add('area', z3.BoolVal(float(g('area')) == na))
            flux = sum((term(data[p]) for p in G), z3.RealVal(0))
            if twin == 'drop' and len(G) > 1:
                flux = sum((term(data[p]) for p in G[1:]), z3.RealVal(0))
            add('segment_flux', term(g('segment_flux')) == flux)
            var = sum((term(err[p]) * term(err[p]) for p in G),
                      z3.RealVal(0))
            fe = term(g('segment_fluxerr'))
            rad = ctx.radicand(fe)
            if rad is not None and poly_equal(rad, var):
                add('segment_fluxerr', z3.BoolVal(True))
            else:
                add('segment_fluxerr', z3.And(fe >= 0, fe * fe == var))
            bs = sum((term(bkg[p]) for p in G), z3.RealVal(0))
            add('background_sum', term(g('background_sum')) == bs)
            add('background_mean', term(g('background_mean')) * len(G) == bs)
            mn, mx = term(g('min_value')), term(g('max_value'))
            vals = [term(data[p]) for p in G]
            add('min_value', z3.And([mn <= v for v in vals]
                                    + [z3.Or([mn == v for v in vals])]))
            add('max_value', z3.And([mx >= v for v in vals]
                                    + [z3.Or([mx == v for v in vals])]))
            if 'minval_yindex' in got:
                iy, ix = int(g('minval_yindex')), int(g('minval_xindex'))
                add('minval_index', z3.BoolVal((iy, ix) in G))
                if (iy, ix) in G:
                    add('minval_index', term(data[iy, ix]) == mn)
                iy, ix = int(g('maxval_yindex')), int(g('maxval_xindex'))
                add('maxval_index', z3.BoolVal((iy, ix) in G))
                if (iy, ix) in G:
                    add('maxval_index', term(data[iy, ix]) == mx)
            # moments (documented: negative / non-finite / masked -> 0) of
            # the detection image; centroid = first moments / M00 + origin
            y0, x0 = min(ys), min(xs)
            vm = [z3.If(term(mom_src[p]) < 0, 0, term(mom_src[p]))
                  for p in Gm]
            M00 = sum(vm, z3.RealVal(0))
            M10 = sum(((x - x0) * v for (y, x), v in zip(Gm, vm)),
                      z3.RealVal(0))
            M01 = sum(((y - y0) * v for (y, x), v in zip(Gm, vm)),
                      z3.RealVal(0))
            mom = got['moments'] if np.ndim(got['moments']) == 3 else \
                [got['moments']]
            mk_ = mom[k]
            add('moments', z3.And(term(mk_[0, 0]) == M00,
                                  term(mk_[0, 1]) == M10,
                                  term(mk_[1, 0]) == M01))
            cc = np.atleast_2d(got['cutout_centroid'])[k]
            xc, yc = g('xcentroid'), g('ycentroid')
            add('centroid', z3.If(
                M00 == 0, z3.And(nanflag(xc), nanflag(yc)),
                z3.And(z3.Not(nanflag(xc)), z3.Not(nanflag(yc)),
                       term(cc[0]) * term(mk_[0, 0]) == term(mk_[0, 1]),
                       term(cc[1]) * term(mk_[0, 0]) == term(mk_[1, 0]),
                       term(xc) - term(cc[0]) == int(x0),
                       term(yc) - term(cc[1]) == int(y0))))
            # second-order central moments about the centroid (rational
            # identities in the pixel values; the zeroing of negative pixels
            # was decided on this path, so the cached decisions are reused)
            if M00 is not None and not case.get('nocentral'):
                from ..ratnf import NotRational, cross
                mc_ = got['moments_central'] if np.ndim(
                    got['moments_central']) == 3 else [got['moments_central']]
                vv = [(0 if bool(mom_src[p] < 0) else term(mom_src[p]))
                      for p in Gm]
                tot = sum(vv, z3.RealVal(0))
                if not z3.is_false(z3.simplify(tot == 0)) and \
                        not bool(SymReal(tot) == 0):
                    xb = sum(((x - x0) * v for (y, x), v in zip(Gm, vv)),
                             z3.RealVal(0)) / tot
                    yb = sum(((y - y0) * v for (y, x), v in zip(Gm, vv)),
                             z3.RealVal(0)) / tot
                    for (i, j) in ((0, 2), (2, 0), (1, 1), (0, 0)):
                        want = sum((((y - y0) - yb) ** i * ((x - x0) - xb) ** j
                                    * v if (i or j) else v
                                    for (y, x), v in zip(Gm, vv)),
                                   z3.RealVal(0))
                        if twin == 'drop' and (i, j) == (1, 1):
                            want = want + 1
                        try:
                            add('moments_central', cross(
                                term(mc_[k][i, j]), want) == 0)
                        except NotRational:
                            add('moments_central',
                                term(mc_[k][i, j]) == want)
        cnt['n'] += 1
        for site, cl in groups.items():
            r, m = ctx.holds(z3.And(cl), site)
            if r == 'sat':
                ctx.find(f'catalog:{site}', f'SourceCatalog.{site} differs '
                         f'from its definition on the labelled, unmasked, '
                         f'finite pixels', ctx.witness(m), params=params)
        # access order: a second instance read moments-first must agree
        if case.get('order') and not twin:
            with warnings.catch_warnings():
                warnings.simplefilter('ignore')
                catb = SourceCatalog(data, SegmentationImage(segarr.copy()),
                                     error=err, background=bkg, mask=mask,
                                     convolved_data=conv, progress_bar=False)
                momb = catb.moments
                momb = momb if np.ndim(momb) == 3 else [momb]
                fluxb = np.atleast_1d(catb.segment_flux)
            moma = got['moments'] if np.ndim(got['moments']) == 3 else \
                [got['moments']]
            conds = []
            for k in range(len(labels)):
                for ij in ((0, 0), (0, 1), (1, 0), (1, 1), (2, 0), (0, 2)):
                    conds.append(same(moma[k][ij], momb[k][ij]))
                conds.append(same(np.atleast_1d(got['segment_flux'])[k],
                                  fluxb[k]))
            r, m = ctx.holds(z3.And(conds), 'access-order')
            if r == 'sat':
                ctx.find('catalog:access-order', 'moments depend on whether '
                         'flux-type properties were read first',
                         ctx.witness(m), params=params)
        # renumbering labels and reversing rows changes nothing else
        if case.get('renumber') and not twin:
            with warnings.catch_warnings():
                warnings.simplefilter('ignore')
                seg2 = segarr.copy()
                mp = {lab: 10 * (len(labels) - i) for i, lab in
                      enumerate(labels)}
                for lab, new in mp.items():
                    seg2[segarr == lab] = new
                cat2 = SourceCatalog(data, SegmentationImage(seg2),
                                     error=err, background=bkg, mask=mask,
                                     convolved_data=conv, progress_bar=False)
                got2 = _props(cat2, False)
            order = [sorted(mp.values()).index(mp[lab]) for lab in labels]
            conds = []
            m1 = got['moments'] if np.ndim(got['moments']) == 3 else \
                [got['moments']]
            m2 = got2['moments'] if np.ndim(got2['moments']) == 3 else \
                [got2['moments']]
            for k, j in enumerate(order):
                for ij in ((0, 0), (0, 1), (1, 0), (1, 1), (2, 0), (0, 2)):
                    conds.append(same(m1[k][ij], m2[j][ij]))
            for p in ('segment_flux', 'segment_fluxerr', 'area', 'min_value',
                      'max_value', 'background_sum', 'bbox_xmin',
                      'bbox_ymax'):
                a = np.atleast_1d(got[p])
                b = np.atleast_1d(got2[p])
                for k, j in enumerate(order):
                    x_, y_ = a[k], b[j]
                    if p == 'segment_fluxerr':
                        r1 = ctx.radicand(term(x_))
                        r2 = ctx.radicand(term(y_))
                        if r1 is not None and r2 is not None and \
                                poly_equal(r1, r2):
                            continue
                        conds.append(same(x_ * x_, y_ * y_))
                    else:
                        conds.append(same(x_, y_))
            r, m = ctx.holds(z3.And(conds), 'renumber')
            if r == 'sat':
                ctx.find('catalog:renumber', 'renumbering the labels changed '
                         'a measurement', ctx.witness(m), params=params)
        ok = all(unchanged(a, s_) for a, s_ in zip((data, err, bkg), snaps)) \
            and (mask is None or np.array_equal(mask, ms))
        if not ok:
            ctx.find('catalog:input-modified', 'input modified',
                     ctx.witness(), params=params)
        if len(samples) < 1:
            samples.append(dict(case=case['name'], flux0=str(np.atleast_1d(
                got['segment_flux'])[0])[:120]))

    _, st, f = explore(fn)
    return dict(stats=st, findings=f, samples=samples, nontrivial=cnt['n'])


def _localbkg_check(scen):
    """Concrete relation between public columns with a local background:
    segment_flux + area*local_background == sum of the unmasked finite
    pixels of the label (area = number of those pixels)."""
    from astropy.modeling.models import Gaussian2D
    from photutils.segmentation import SourceCatalog, detect_sources
    yy, xx = np.mgrid[:30, :34]
    img = (Gaussian2D(40, 9, 10, 1.8, 1.4, theta=0.5)(xx, yy)
           + Gaussian2D(60, 24, 18, 1.5, 2.0)(xx, yy) + scen['ped']
           + 0.03 * xx)
    segm = detect_sources(img - scen['ped'] - 0.03 * xx, 1.0, npixels=4)
    mask = np.zeros(img.shape, bool)
    if scen['mask'] == 'through':
        mask[10, 7:12] = True
    elif scen['mask'] == 'corner':
        mask[17:19, 23:25] = True
    if scen['nan']:
        img = img.copy()
        img[11, 9] = np.nan
    with warnings.catch_warnings():
        warnings.simplefilter('ignore')
        cat = SourceCatalog(img, segm, mask=mask,
                            localbkg_width=scen['width'], progress_bar=False)
        flux = np.asarray(cat.segment_flux, float)
        area = np.asarray(cat.area.value, float)
        lb = np.asarray(cat.local_background, float)
    for k, lab in enumerate(cat.labels):
        sel = (segm.data == lab) & ~mask & np.isfinite(img)
        tot = img[sel].sum()
        if not np.isclose(area[k], sel.sum()):
            return f'label {lab}: area {area[k]} != {sel.sum()}'
        if not np.isclose(flux[k] + sel.sum() * lb[k], tot, rtol=1e-10):
            return (f'label {lab}: segment_flux {flux[k]} != sum(data) - '
                    f'npix*local_background = {tot - sel.sum() * lb[k]}')
    return None


def _run_localbkg(case):
    cnt = dict(n=0)
    samples = []

    def fn(ctx):
        scen = dict(mask=ctx.choice('mask', ['none', 'through', 'corner']),
                    nan=ctx.flag('nan'),
                    width=ctx.choice('width', [0, 2, 5]),
                    ped=ctx.choice('ped', [0.0, 3.5]))
        ctx.stats.obligations += 1
        cnt['n'] += 1
        msg = _localbkg_check(scen)
        if msg is None:
            ctx.stats.unsat += 1
        else:
            ctx.stats.sat += 1
            ctx.find('catalog:localbkg', f'{scen}: {msg}', ctx.witness(),
                     params=dict(kind='localbkg', scen=scen))
        if len(samples) < 2:
            samples.append(scen)

    _, st, f = explore(fn)
    return dict(stats=st, findings=f, samples=samples, nontrivial=cnt['n'])


SHAPE_COLS = ('covar_sigx2', 'covar_sigy2', 'covar_sigxy', 'semimajor_sigma',
              'semiminor_sigma', 'orientation', 'eccentricity', 'elongation',
              'ellipticity', 'fwhm', 'cxx', 'cyy', 'cxy',
              'equivalent_radius', 'xcentroid', 'ycentroid', 'area',
              'segment_flux', 'segment_fluxerr', 'background_sum',
              'background_mean', 'min_value', 'max_value')


def _shape_scene(scen):
    from astropy.modeling.models import Gaussian2D
    from scipy import ndimage
    yy, xx = np.mgrid[:36, :44]
    img = (Gaussian2D(50, 10.3, 9.6, 3.1, 1.3, theta=0.6)(xx, yy)
           + Gaussian2D(30, 31.2, 24.4, 1.6, 2.9, theta=-0.3)(xx, yy))
    img[30, 4:15] += 9.0            # one-pixel-wide line (the 1/12 rule)
    img[3, 38] += 25.0              # single-pixel source
    img[20:23, 6:8] += 7.0          # small block
    segarr, n = ndimage.label(img > 2.0)
    segarr = segarr.astype(int) * 3 + 1          # non-consecutive labels
    segarr[segarr == 1] = 0
    img = img - 0.2                               # some negative background
    if scen['neg']:
        img[10, 9] = -4.0
        img[30, 8] = -1.0
    mask = None
    if scen['mask'] == 'through':
        mask = np.zeros(img.shape, bool)
        mask[9, 5:16] = True
        mask[24, 30:33] = True
    elif scen['mask'] == 'single':
        mask = np.zeros(img.shape, bool)
        mask[3, 38] = True          # the single-pixel source is all masked
    if scen['nan']:
        img[25, 31] = np.nan
        img[30, 10] = np.nan
    if scen.get('inf'):
        img[10, 11] = np.inf        # non-finite but not NaN
        img[23, 30] = -np.inf
    conv = None
    if scen['conv']:
        conv = ndimage.uniform_filter(np.where(np.isfinite(img), img, 0.0), 3)
    return img, segarr, mask, conv


def _shape_oracle(src, data, segarr, mask, lab):
    ys, xs = np.nonzero(segarr == lab)
    good = np.isfinite(data[ys, xs]) & np.isfinite(src[ys, xs])
    if mask is not None:
        good &= ~mask[ys, xs]
    area = float((np.isfinite(data[ys, xs]) & (
        ~mask[ys, xs] if mask is not None else True)).sum())
    out = dict(area=area if area else np.nan,
               equivalent_radius=np.sqrt(area / np.pi) if area else np.nan)
    fin = np.isfinite(data[ys, xs]) & (~mask[ys, xs] if mask is not None
                                       else True)
    H, W = data.shape
    err = 0.5 + 0.01 * xs + 0.02 * ys
    bkg = 0.1 + 0.003 * xs - 0.001 * ys
    if area:
        dv = data[ys, xs][fin]
        out.update(segment_flux=dv.sum(),
                   segment_fluxerr=np.sqrt((err[fin] ** 2).sum()),
                   background_sum=bkg[fin].sum(),
                   background_mean=bkg[fin].mean(), min_value=dv.min(),
                   max_value=dv.max())
    v = np.where(good, np.maximum(np.where(good, src[ys, xs], 0.0), 0), 0.0)
    nanall = dict.fromkeys(SHAPE_COLS, np.nan)
    if not area or v.sum() == 0:
        nanall.update(out) if area else None
        return nanall
    m00 = v.sum()
    xb, yb = (xs * v).sum() / m00, (ys * v).sum() / m00
    sxx = ((xs - xb) ** 2 * v).sum() / m00
    syy = ((ys - yb) ** 2 * v).sum() / m00
    sxy = ((xs - xb) * (ys - yb) * v).sum() / m00
    det = sxx * syy - sxy ** 2
    if det < 0:
        return nanall
    while det < (1 / 12) ** 2:
        sxx += 1 / 12
        syy += 1 / 12
        det = sxx * syy - sxy ** 2
    tr = sxx + syy
    disc = np.sqrt(max(tr * tr - 4 * det, 0.0))
    l1, l2 = (tr + disc) / 2, (tr - disc) / 2
    a, b = np.sqrt(l1), np.sqrt(l2)
    th = 0.5 * np.arctan2(2 * sxy, sxx - syy)
    out.update(xcentroid=xb, ycentroid=yb, covar_sigx2=sxx, covar_sigy2=syy,
               covar_sigxy=sxy, semimajor_sigma=a, semiminor_sigma=b,
               orientation=np.degrees(th),
               eccentricity=np.sqrt(1 - l2 / l1), elongation=a / b,
               ellipticity=1 - b / a,
               fwhm=2 * np.sqrt(np.log(2) * (l1 + l2)),
               cxx=(np.cos(th) / a) ** 2 + (np.sin(th) / b) ** 2,
               cyy=(np.sin(th) / a) ** 2 + (np.cos(th) / b) ** 2,
               cxy=2 * np.cos(th) * np.sin(th) * (1 / l1 - 1 / l2))
    return out


def _shape_check(scen):
    from photutils.segmentation import SegmentationImage, SourceCatalog
    img, segarr, mask, conv = _shape_scene(scen)
    with warnings.catch_warnings():
        warnings.simplefilter('ignore')
        yy_, xx_ = np.mgrid[:img.shape[0], :img.shape[1]]
        cat = SourceCatalog(img, SegmentationImage(segarr), mask=mask,
                            convolved_data=conv,
                            error=0.5 + 0.01 * xx_ + 0.02 * yy_,
                            background=0.1 + 0.003 * xx_ - 0.001 * yy_,
                            progress_bar=False)
        got = {c: np.asarray(getattr(getattr(cat, c), 'value',
                                     getattr(cat, c)), float)
               for c in SHAPE_COLS}
    src = conv if conv is not None else img
    for k, lab in enumerate(cat.labels):
        exp = _shape_oracle(src, img, segarr, mask, lab)
        for c in SHAPE_COLS:
            g, e = got[c][k], exp[c]
            if scen.get('twin') and c == 'cxy' and np.isfinite(e):
                e = -e
            if np.isnan(e) and np.isnan(g):
                continue
            if c == 'orientation' and np.isfinite(g) and np.isfinite(e):
                # undefined for a round source; defined modulo 180 degrees
                if abs(exp['elongation'] - 1) < 1e-9:
                    continue
                dlt = abs((g - e + 90) % 180 - 90)
                if dlt > 1e-6:
                    return (f'label {lab} orientation: catalog {g}, '
                            f'definition {e}')
                continue
            if not np.isclose(g, e, rtol=1e-8, atol=1e-10):
                return f'label {lab} {c}: catalog {g}, definition {e}'
    return None


def _run_shape(case):
    cnt = dict(n=0)
    samples = []

    def fn(ctx):
        scen = dict(mask=ctx.choice('mask', ['none', 'through', 'single']),
                    nan=ctx.flag('nan'), neg=ctx.flag('neg'),
                    conv=ctx.flag('conv'), inf=ctx.flag('inf'))
        if case.get('twin'):
            scen['twin'] = True
        ctx.stats.obligations += 1
        cnt['n'] += 1
        msg = _shape_check(scen)
        if msg is None:
            ctx.stats.unsat += 1
        else:
            ctx.stats.sat += 1
            ctx.find('catalog:shape', f'{scen}: {msg}', ctx.witness(),
                     params=dict(kind='shape', scen=scen))
        if len(samples) < 2:
            samples.append(scen)

    _, st, f = explore(fn)
    return dict(stats=st, findings=f, samples=samples, nontrivial=cnt['n'])


def run_case(case):
    if case.get('kind') == 'localbkg':
        return _run_localbkg(case)
    if case.get('kind') == 'shape':
        return _run_shape(case)
    return _run(case)


def cases(tier, seed):
    cs = []

    def add(segm, mask, **kw):
        name = f'catalog-{segm}-mask{int(mask)}' + ''.join(
            f'-{k}:{v}' for k, v in kw.items())
        cs.append(dict(name=name, segm=segm, mask=mask, **kw))

    for i, s in enumerate(SEGMS):
        # one source of forks per case: mask, NaN, negative pixel, arg-extrema
        add(s, mask=True, nan=False, negmax=0, renumber=(i % 3 == 0))
        add(s, mask=False, nan=True, negmax=0)
        add(s, mask=False, nan=False, negmax=1, renumber=(i % 3 == 1))
        if s not in ('nested', 'wide'):
            add(s, mask=False, nan=False, negmax=0, minmax=True)
    # a label whose pixels are all masked / NaN while its box is not
    add('diag', True, nan=True, negmax=0)
    # extreme-value indices when the extreme pixel may be masked / NaN
    add('single-edge', True, nan=False, negmax=0, minmax=True)
    add('gaps', False, nan=True, negmax=0, minmax=True)
    add('touching', False, nan=False, conv=True, negmax=1)
    add('touching', False, nan=True, conv=True, negmax=0)
    add('gaps', False, nan=True, conv=True, negmax=0, order=True)
    add('single-edge', True, nan=False, conv=True, negmax=0, order=True)
    add('gaps', True, nan=False, conv=True, renumber=True, negmax=0)
    add('single-edge', False, nan=True, detcat=True, negmax=0)
    add('wide', True, nan=False, detcat=True, negmax=0)
    cs.append(dict(name='catalog-localbkg-differential', kind='localbkg'))
    cs.append(dict(name='catalog-shape-definitions', kind='shape'))
    cs.append(dict(name='catalog-shape-twin', kind='shape', twin=True))
    add('touching', True, nan=False, twin='nomask', negmax=0)
    add('touching', False, nan=False, twin='drop', negmax=0)
    if tier == 'thorough':
        for s in SEGMS:
            add(s, mask=True, nan=True, conv=True, negmax=1)
            add(s, mask=True, nan=True, renumber=True, negmax=0)
            add(s, mask=True, nan=False, detcat=True, negmax=1)
            add(s, mask=True, nan=False, negmax=0, minmax=True)
            add(s, mask=False, nan=False, negmax=2)
        add('touching', True, nan=True, negmax=1)
        add('nested', False, nan=False, negmax=0, minmax=True)
        add('wide', False, nan=False, negmax=0, minmax=True)
    return cs


def replay(f):
    from photutils.segmentation import SegmentationImage, SourceCatalog
    p = f['params']
    w = f['witness']
    if p.get('kind') == 'localbkg':
        msg = _localbkg_check(p['scen'])
        return msg is not None, str(msg)
    if p.get('kind') == 'shape':
        msg = _shape_check(p['scen'])
        return msg is not None, str(msg)
    segarr = SEGMS[p['segm']]
    H, W = segarr.shape
    d = arr_from_witness(w, 'd', (H, W))
    e = arr_from_witness(w, 'e', (H, W))
    b = arr_from_witness(w, 'b', (H, W))
    c = arr_from_witness(w, 'c', (H, W)) if (p['conv'] or p['detcat']) \
        else None
    mask = mask_from_witness(w, 'm', (H, W)) if p['mask'] else None
    with warnings.catch_warnings():
        warnings.simplefilter('ignore')
        det = None
        conv = c if p['conv'] else None
        if p['detcat']:
            det = SourceCatalog(c, SegmentationImage(segarr.copy()),
                                mask=mask, progress_bar=False)
        d0, e0, b0 = d.copy(), e.copy(), b.copy()
        m0 = None if mask is None else mask.copy()
        cat = SourceCatalog(d, SegmentationImage(segarr.copy()), error=e,
                            background=b, mask=mask, convolved_data=conv,
                            detection_cat=det, progress_bar=False)
        got = _props(cat)
        if f['key'] == 'catalog:input-modified':
            bad = not (np.array_equal(d, d0, equal_nan=True)
                       and np.array_equal(e, e0, equal_nan=True)
                       and np.array_equal(b, b0, equal_nan=True)
                       and (mask is None or np.array_equal(mask, m0)))
            return bad, f'input modified: {bad}' 
        if f['key'] == 'catalog:renumber':
            labels = [int(l) for l in np.unique(segarr[segarr > 0])]
            seg2 = segarr.copy()
            mp = {lab: 10 * (len(labels) - i) for i, lab in enumerate(labels)}
            for lab, new in mp.items():
                seg2[segarr == lab] = new
            cat2 = SourceCatalog(d, SegmentationImage(seg2), error=e,
                                 background=b, mask=mask,
                                 convolved_data=conv, progress_bar=False)
            a1 = np.atleast_1d(cat.segment_flux)
            a2 = np.atleast_1d(cat2.segment_flux)[::-1]
            bad = not np.allclose(a1, a2, equal_nan=True)
            return bad, f'{a1} vs renumbered {a2}'
    src = c if (p['conv'] or p['detcat']) else d
    labels = [int(l) for l in np.unique(segarr[segarr > 0])]
    msgs = []
    bad = False

    def close(a, b_):
        a, b_ = float(a), float(b_)
        return (np.isnan(a) and np.isnan(b_)) or np.isclose(
            a, b_, rtol=1e-9, atol=1e-11)
    for k, lab in enumerate(labels):
        ys, xs = np.nonzero(segarr == lab)
        G = [(y, x) for y, x in zip(ys, xs)
             if not (mask is not None and mask[y, x])
             and np.isfinite(d[y, x])]
        exp = {}
        if G:
            v = np.array([d[p_] for p_ in G])
            exp.update(segment_flux=v.sum(),
                       segment_fluxerr=np.sqrt(sum(e[p_] ** 2 for p_ in G)),
                       area=len(G) if not p['detcat'] else len(
                           [q for q in zip(ys, xs) if not (
                               mask is not None and mask[q])
                            and np.isfinite(c[q])]), min_value=v.min(), max_value=v.max(),
                       background_sum=sum(b[p_] for p_ in G))
            Gm = [(y, x) for y, x in zip(ys, xs)
                  if not (mask is not None and mask[y, x])
                  and np.isfinite(src[y, x])
                  and (p['detcat'] or np.isfinite(d[y, x]))]
            vm = np.array([max(src[p_], 0.0) for p_ in Gm])
            if vm.sum() != 0:
                exp['xcentroid'] = sum(x * q for (y, x), q in
                                       zip(Gm, vm)) / vm.sum()
                exp['ycentroid'] = sum(y * q for (y, x), q in
                                       zip(Gm, vm)) / vm.sum()
            else:
                exp['xcentroid'] = exp['ycentroid'] = np.nan
        else:
            for q in ('segment_flux', 'area', 'min_value', 'max_value',
                      'xcentroid', 'ycentroid'):
                exp[q] = np.nan
        for q, x in exp.items():
            gv = np.atleast_1d(got[q])[k]
            if not close(gv, x):
                bad = True
                msgs.append(f'label {lab} {q}: got {gv} expected {x}')
        # extreme-value indices: a labelled, unmasked, finite pixel that
        # holds the extreme value
        if G and 'minval_yindex' in got:
            v = np.array([d[p_] for p_ in G])
            for nm, ext in (('minval', v.min()), ('maxval', v.max())):
                iy = int(np.atleast_1d(got[nm + '_yindex'])[k])
                ix = int(np.atleast_1d(got[nm + '_xindex'])[k])
                if (iy, ix) not in [(int(a), int(b_)) for a, b_ in G] or \
                        d[iy, ix] != ext:
                    bad = True
                    msgs.append(f'label {lab} {nm}_index ({iy},{ix}) is not '
                                f'a labelled unmasked finite pixel holding '
                                f'{ext}')
    return bad, f'data={d.tolist()} mask=' \
        f'{None if mask is None else mask.tolist()} ' + (
            f'convolved/detection={c.tolist()} ' if (p['conv'] or p['detcat'])
            else '') + '; '.join(msgs)
