"""C11 - Background2D: meshes are box statistics of exactly the unmasked pixels,
maps are full-size, mask-blind, fill_value on coverage pixels.

SYM on the unmodified Background2D with symbolic-aware estimator and
interpolator stubs passed through the public constructor arguments.
"""
import warnings

import numpy as np
import z3

from ..sym import (Stats, SymArray, SymBool, SymReal, const, explore,
                   nanflag, same, symarray, term)
from ..util import arr_from_witness, mask_from_witness, snapshot, unchanged

META = dict(
    functions=['photutils.background.background_2d:Background2D.__init__',
               'photutils.background.background_2d:Background2D._combine_input_masks',
               'photutils.background.background_2d:Background2D._combine_all_masks',
               'photutils.background.background_2d:Background2D._good_npixels_threshold',
               'photutils.background.background_2d:Background2D._compute_box_statistics',
               'photutils.background.background_2d:Background2D._calculate_stats',
               'photutils.background.background_2d:Background2D.background_mesh',
               'photutils.background.background_2d:Background2D.npixels_mesh',
               'photutils.background.background_2d:Background2D._calculate_image',
               'photutils.background.background_2d:Background2D.background'],
    bounds=('symbolic data (NaN-extended, <=1 NaN) with <=1 masked and <=1 '
            'coverage-masked pixel on shapes 4x4, 5x4, 4x6, 5x5 with box '
            'sizes 2x2, 2x3, 3x2 and the image itself (dividing and not), '
            'edge_method pad and crop, symbolic exclude_percentile in '
            '[0,100] and symbolic fill_value; sigma_clip=None'),
    assumptions=['bkg_estimator = mean of the non-NaN values, '
                 'bkgrms_estimator = max - min, interpolator = block '
                 'replication: symbolic-aware stubs passed through the public '
                 'arguments (the real estimators/spline are compiled float '
                 'code)', 'floats as NaN-extended reals'],
    stubs=['MeanEst / RangeEst estimator stubs', 'block-replication '
           'interpolator stub', 'numpy facade'],
    outside=['finite-ness / constant reproduction / equivariance with the '
             'real sigma-clipped estimators and spline or IDW interpolators '
             '(checked only as a concrete metamorphic family with '
             'tolerance)', 'values of excluded (IDW-filled) meshes',
             'bottleneck vs numpy dispatch'],
    min_obligations=30,
)


def _stubs():
    from .. import facade

    class MeanEst:
        sigma_clip = None

        def __call__(self, data, axis=None, masked=False):
            return facade.nanmean(data, axis=axis)

    class RangeEst:
        sigma_clip = None

        def __call__(self, data, axis=None, masked=False):
            return facade.nanmax(data, axis=axis) - facade.nanmin(data,
                                                                  axis=axis)

    def rep_interp(mesh, **kw):
        bs = kw['box_size']
        shp = kw['shape']
        out = np.empty(shp, dtype=object)
        for y in range(shp[0]):
            for x in range(shp[1]):
                out[y, x] = mesh[min(y // bs[0], mesh.shape[0] - 1),
                                 min(x // bs[1], mesh.shape[1] - 1)]
        return out.view(SymArray)
    return MeanEst, RangeEst, rep_interp


def _boxes(shape, box, edge):
    """Independent model of the mesh layout: list of rows of pixel lists."""
    H, W = shape
    by, bx = box
    ny, nx = H // by, W // bx
    ys = [(j * by, (j + 1) * by) for j in range(ny)]
    xs = [(i * bx, (i + 1) * bx) for i in range(nx)]
    if edge == 'pad':
        if ny * by < H:
            ys.append((ny * by, H))
        if nx * bx < W:
            xs.append((nx * bx, W))
    return [[[(y, x) for y in range(y0, y1) for x in range(x0, x1)]
             for (x0, x1) in xs] for (y0, y1) in ys]


def _run(case):
    from .. import facade
    facade.install()
    from photutils.background import Background2D
    MeanEst, RangeEst, rep_interp = _stubs()
    H, W = case['shape']
    box = case['box']
    edge = case['edge']
    twin = case.get('twin')
    cnt = dict(n=0)
    samples = []

    def fn(ctx):
        data = symarray(ctx, 'd', (H, W), nan=case.get('nan', True))
        if case.get('nan', True):
            ctx.assume(z3.Sum([z3.If(nanflag(v), 1, 0)
                               for v in data.flat]) <= 1)

        def bits(prefix, on):
            if not on:
                return None, None
            bs = [z3.Bool(f'{prefix}_{y}_{x}') for y in range(H)
                  for x in range(W)]
            for b in bs:
                ctx.inputs[str(b)] = b
            ctx.assume(z3.Sum([z3.If(b, 1, 0) for b in bs]) <= 1)
            m = np.zeros((H, W), bool)
            for i, b in enumerate(bs):
                m.flat[i] = bool(SymBool(b))
            return m, bs
        mask, _ = bits('m', case.get('mask'))
        cov, _ = bits('c', case.get('cov'))
        fill = ctx.real('fill')
        pct = ctx.real('pct')
        ctx.assume(z3.And(pct.e >= 0, pct.e <= 100))
        ds = snapshot(data)
        ms = None if mask is None else mask.copy()
        cs_ = None if cov is None else cov.copy()
        params = dict(shape=[H, W], box=list(box), edge=edge,
                      mask=bool(case.get('mask')), cov=bool(case.get('cov')))
        with warnings.catch_warnings():
            warnings.simplefilter('ignore')
            try:
                b = Background2D(data, box, mask=mask, coverage_mask=cov,
                                 fill_value=fill, exclude_percentile=pct,
                                 sigma_clip=None, bkg_estimator=MeanEst(),
                                 bkgrms_estimator=RangeEst(),
                                 interpolator=rep_interp, filter_size=1,
                                 edge_method=edge)
                mesh = b.background_mesh
                rmesh = b.background_rms_mesh
                npix = np.asarray(b.npixels_mesh)
                bkg = b.background
                rms = b.background_rms
            except ValueError as e:
                if 'All boxes contain' in str(e):
                    return      # documented: nothing left to estimate from
                raise
        layout = _boxes((H, W), box, edge)
        cnt['n'] += 1
        groups = {}

        def add(l, c):
            groups.setdefault(l, []).append(c)
        okshape = (np.shape(mesh) == (len(layout), len(layout[0]))
                   and np.shape(bkg) == (H, W) and np.shape(rms) == (H, W))
        add('shape', z3.BoolVal(bool(okshape)))
        if okshape:
            for j, row in enumerate(layout):
                for i, pix in enumerate(row):
                    good = [p for p in pix
                            if not (mask is not None and mask[p]
                                    and twin != 'nomask')
                            and not (cov is not None and cov[p])
                            and not bool(data[p].isnan())]
                    add('npixels_mesh', z3.BoolVal(int(npix[j, i])
                                                   == len(good)))
                    nbox = box[0] * box[1]
                    thr = (1 - pct.e / 100) * nbox
                    excluded = z3.RealVal(len(good)) <= thr
                    if not good:
                        continue
                    s = sum((term(data[p]) for p in good), z3.RealVal(0))
                    mv = mesh[j, i]
                    add('mesh-value', z3.Implies(
                        z3.Not(excluded),
                        z3.And(z3.Not(nanflag(mv)),
                               term(mv) * len(good) == s)))
                    # the RMS stub is max - min of the same pixel set
                    rv = rmesh[j, i]
                    vals = [term(data[p]) for p in good]
                    add('rms-mesh-value', z3.Implies(
                        z3.Not(excluded),
                        z3.And([term(rv) >= a - c for a in vals
                                for c in vals]
                               + [z3.Or([term(rv) == a - c for a in vals
                                         for c in vals])])))
            # full-size maps: fill_value exactly on coverage pixels, the
            # (replicated) mesh value elsewhere
            for y in range(H):
                for x in range(W):
                    mj = min(y // box[0], len(layout) - 1)
                    mi = min(x // box[1], len(layout[0]) - 1)
                    if cov is not None and cov[y, x] and twin != 'nofill':
                        add('coverage-fill', z3.And(
                            same(bkg[y, x], fill), same(rms[y, x], fill)))
                    else:
                        add('map-value', z3.And(
                            same(bkg[y, x], mesh[mj, mi]),
                            same(rms[y, x], rmesh[mj, mi])))
        for site, cl in groups.items():
            r, m = ctx.holds(z3.And(cl), site)
            if r == 'sat':
                ctx.find(f'bkg:{site}', f'Background2D {site} differs from '
                         f'the box-statistics definition', ctx.witness(m),
                         params=params)
        if not unchanged(data, ds) or (mask is not None and not
                                       np.array_equal(mask, ms)) or (
                cov is not None and not np.array_equal(cov, cs_)):
            what = 'coverage_mask' if (cov is not None and not
                                       np.array_equal(cov, cs_)) else (
                'mask' if (mask is not None and not np.array_equal(mask, ms))
                else 'data')
            ctx.stats.obligations += 1
            ctx.stats.sat += 1
            ctx.find(f'bkg:input-modified:{what}', f'the caller\'s {what} '
                     f'array was modified', ctx.witness(), params=params)
        if len(samples) < 1:
            samples.append(dict(case=case['name'], mesh00=str(mesh[0, 0])[:160],
                                npixels=npix.tolist()))

    _, st, f = explore(fn)
    return dict(stats=st, findings=f, samples=samples, nontrivial=cnt['n'])


# ---- concrete metamorphic family with the real estimators -------------------
def _meta_check(scen):
    from astropy.stats import SigmaClip
    from photutils.background import (Background2D, BiweightLocationBackground,
                                      BkgIDWInterpolator, BkgZoomInterpolator,
                                      MeanBackground, MedianBackground,
                                      MMMBackground, SExtractorBackground,
                                      StdBackgroundRMS)
    rng = np.random.default_rng(11)
    H, W = scen['shape']
    data = rng.normal(5.0, 1.0, (H, W)) + 0.08 * np.arange(W)[None, :] \
        * scen['grad']
    if scen.get('quant'):
        # quantised low-count data: many boxes have a median absolute
        # deviation of exactly 0 without being constant
        data = np.round(rng.normal(0.0, 0.45, (H, W))) + 5.0 \
            + np.round(0.08 * np.arange(W)[None, :] * scen['grad'])
    mask = np.zeros((H, W), bool)
    cov = None
    if scen['mask']:
        mask[3:6, 2:7] = True
    if scen['cov']:
        cov = np.zeros((H, W), bool)
        cov[:, W - 3:] = True
    est = dict(median=MedianBackground, mean=MeanBackground,
               mmm=MMMBackground, sext=SExtractorBackground,
               biweight=BiweightLocationBackground)[scen['est']]()
    interp = BkgIDWInterpolator() if scen['idw'] else BkgZoomInterpolator()

    def run(d):
        with warnings.catch_warnings():
            warnings.simplefilter('ignore')
            b = Background2D(d, scen['box'], mask=mask if scen['mask']
                             else None, coverage_mask=cov,
                             fill_value=-99.0, bkg_estimator=est,
                             bkgrms_estimator=StdBackgroundRMS(),
                             sigma_clip=SigmaClip(3.0),
                             interpolator=interp,
                             exclude_percentile=30.0)
            return np.array(b.background), np.array(b.background_rms), \
                np.array(b.background_mesh)
    b0, r0, m0 = run(data)
    if b0.shape != data.shape or r0.shape != data.shape:
        return 'map shape differs from the data shape'
    keep = np.ones((H, W), bool) if cov is None else ~cov
    if not (np.all(np.isfinite(b0[keep])) and np.all(np.isfinite(r0[keep]))):
        return 'non-finite background value'
    if cov is not None and not (np.all(b0[cov] == -99.0)
                                and np.all(r0[cov] == -99.0)):
        return 'fill_value not used on coverage pixels'
    # non-finite pixels (NaN, +-inf) are excluded like masked ones
    if scen['shift'] == 0.0 and scen['scale'] == 1.0:
        dn = data.copy()
        dn[8, 9] = np.nan
        dn[12, 4] = np.inf
        dn[2, 15] = -np.inf
        mk = mask.copy()
        mk[8, 9] = mk[12, 4] = mk[2, 15] = True
        bn, rn, _ = run(dn)
        with warnings.catch_warnings():
            warnings.simplefilter('ignore')
            bm = Background2D(data, scen['box'], mask=mk, coverage_mask=cov,
                              fill_value=-99.0, bkg_estimator=est,
                              bkgrms_estimator=StdBackgroundRMS(),
                              sigma_clip=SigmaClip(3.0), interpolator=interp,
                              exclude_percentile=30.0)
            bmb, bmr = np.array(bm.background), np.array(bm.background_rms)
        if not (np.all(np.isfinite(bn[keep])) and np.all(np.isfinite(
                rn[keep]))):
            return 'non-finite map for data with NaN / inf pixels'
        if not (np.allclose(bn[keep], bmb[keep], rtol=1e-12)
                and np.allclose(rn[keep], bmr[keep], rtol=1e-12)):
            return ('NaN / +-inf pixels are not treated like masked pixels '
                    f'(max diff {np.max(np.abs(bn[keep] - bmb[keep])):.3g})')
    # mask-blindness: values stored in masked / coverage pixels are irrelevant
    d2 = data.copy()
    d2[mask] = 1e4
    if cov is not None:
        d2[cov] = -1e4
    b2, r2, _ = run(d2)
    if not (np.array_equal(b0, b2) and np.array_equal(r0, r2)):
        return 'values in masked/coverage pixels changed the maps'
    # zoom with clipping stays within the mesh range
    if not scen['idw']:
        if b0[keep].max() > m0.max() + 1e-9 or b0[keep].min() < \
                m0.min() - 1e-9:
            return 'zoomed background leaves the range of the mesh'
    # each mesh value = the real estimator on the sigma-clipped unmasked
    # in-image pixels of its box (meshes with too few good pixels excluded)
    if not scen['idw'] and scen['shift'] == 0.0 and scen['scale'] == 1.0:
        d3 = data.copy()
        d3[7, 8] = 40.0                 # outliers for the sigma clip
        d3[15, 3] = -30.0
        with warnings.catch_warnings():
            warnings.simplefilter('ignore')
            bb = Background2D(d3, scen['box'], mask=mask if scen['mask']
                              else None, coverage_mask=cov, fill_value=-99.0,
                              bkg_estimator=est,
                              bkgrms_estimator=StdBackgroundRMS(),
                              sigma_clip=SigmaClip(3.0), filter_size=1,
                              exclude_percentile=30.0)
            mesh = np.array(bb.background_mesh)
            rmesh = np.array(bb.background_rms_mesh)
            bh, bw = scen['box']
            tot = mask | (cov if cov is not None else False)
            ncmp = 0
            for j in range(-(-H // bh)):
                for i in range(-(-W // bw)):
                    ys = slice(j * bh, min((j + 1) * bh, H))
                    xs = slice(i * bw, min((i + 1) * bw, W))
                    vals = d3[ys, xs][~tot[ys, xs]]
                    if vals.size == 0:
                        continue
                    cl = SigmaClip(3.0)(vals, masked=False)
                    # (documented: pixels rejected by the sigma clip count
                    # as masked for exclude_percentile; boxes within one
                    # pixel of the threshold are skipped)
                    if 100.0 * (bh * bw - cl.size + 1) / (bh * bw) > \
                            30.0 - 1e-9:
                        continue
                    want = type(est)(sigma_clip=None)(cl)
                    wr = StdBackgroundRMS(sigma_clip=None)(cl)
                    if scen.get('twin'):
                        want = want + 0.01
                    ncmp += 1
                    if not np.isclose(mesh[j, i], want, rtol=1e-10):
                        return (f'background_mesh[{j},{i}] = {mesh[j, i]} '
                                f'but the estimator on the clipped pixels of '
                                f'that box gives {want}')
                    if not np.isclose(rmesh[j, i], wr, rtol=1e-10):
                        return (f'background_rms_mesh[{j},{i}] = '
                                f'{rmesh[j, i]}, direct {wr}')
            if ncmp < 4:
                return 'mesh oracle vacuous'
    c, k = scen['shift'], scen['scale']
    b1, r1, _ = run(data * k + c)
    # float64 round-off of the shifted/scaled data is ~1e-16 * (|c| + |k|*|d|)
    tol = 1e-10 * (abs(c) + abs(k) * 10.0)
    if not np.allclose(b1[keep], b0[keep] * k + c, rtol=0, atol=tol * 10):
        return (f'background(k*data+c) != k*background(data)+c (max diff '
                f'{np.max(np.abs(b1[keep] - (b0[keep] * k + c))):.3g})')
    if not np.allclose(r1[keep], r0[keep] * k, rtol=0, atol=tol * 10):
        return 'background_rms not equivariant'
    # constant image reproduced exactly with RMS 0
    bc, rc, _ = run(np.full((H, W), 7.25))
    # ("exactly" up to float rounding of the mesh interpolation: 1e-12)
    if not (np.allclose(bc[keep], 7.25, rtol=1e-12, atol=0)
            and np.all(np.abs(rc[keep]) <= 1e-12)):
        return 'constant image not reproduced with RMS 0'
    return None


def _run_meta(case):
    cnt = dict(n=0)
    samples = []

    def fn(ctx):
        scen = dict(shape=ctx.choice('shape', [(20, 24), (23, 25)]),
                    box=ctx.choice('box', [(5, 6), (7, 5), (4, 4)]),
                    est=case['est'],
                    idw=ctx.flag('idw'), mask=ctx.flag('mask'),
                    cov=ctx.flag('cov'), grad=ctx.choice('grad', [0, 1]),
                    shift=ctx.choice('shift', [0.0, 1e3, 1e7]
                                     if not case.get('twin') else [0.0]),
                    scale=ctx.choice('scale', [1.0, 3.0, 1e-10, 1e13]))
        if case.get('twin'):
            scen['twin'] = True
        if case.get('quant'):
            scen['quant'] = True
        ctx.stats.obligations += 1
        cnt['n'] += 1
        msg = _meta_check(scen)
        if msg is None:
            ctx.stats.unsat += 1
        else:
            ctx.stats.sat += 1
            ctx.find('bkg-real:' + msg.split()[0], f'{scen}: {msg}',
                     ctx.witness(), params=dict(kind='meta', scen=scen))
        if len(samples) < 2:
            samples.append(scen)

    _, st, f = explore(fn)
    return dict(stats=st, findings=f, samples=samples, nontrivial=cnt['n'])


def run_case(case):
    return _run_meta(case) if case.get('kind') == 'meta' else _run(case)


def cases(tier, seed):
    cs = []

    def add(shape, box, edge, **kw):
        name = f'bkg-{shape[0]}x{shape[1]}-box{box[0]}x{box[1]}-{edge}' + \
            ''.join(f'-{k}:{v}' for k, v in kw.items())
        cs.append(dict(name=name, shape=shape, box=box, edge=edge, **kw))

    add((4, 4), (2, 2), 'pad', mask=True, nan=False)
    add((4, 4), (2, 2), 'pad', cov=True, nan=True)
    add((5, 4), (2, 2), 'pad', mask=True, nan=False)
    add((5, 4), (2, 2), 'crop', cov=True, nan=False)
    add((4, 6), (2, 3), 'pad', nan=True)
    add((5, 5), (2, 2), 'pad', cov=True, nan=False)
    add((5, 5), (3, 2), 'pad', mask=True, nan=False)
    add((4, 4), (4, 4), 'pad', mask=True, cov=True, nan=False)
    add((5, 5), (2, 3), 'crop', nan=True)
    add((4, 4), (2, 2), 'pad', mask=True, nan=False, twin='nomask')
    add((4, 4), (2, 2), 'pad', cov=True, nan=False, twin='nofill')
    ests = ['median', 'sext'] if tier == 'quick' else [
        'median', 'mean', 'mmm', 'sext', 'biweight']
    for e in ests:
        cs.append(dict(kind='meta', name=f'bkg-real-{e}', est=e))
    cs.append(dict(kind='meta', name='bkg-real-mesh-twin', est='mmm',
                   twin=True))
    for e in ('biweight', 'median'):
        cs.append(dict(kind='meta', name=f'bkg-real-{e}-quantised', est=e,
                       quant=True))
    if tier == 'thorough':
        for shape, box in [((5, 5), (2, 2)), ((5, 4), (2, 3)),
                           ((6, 5), (3, 2)), ((5, 6), (5, 6))]:
            for edge in ('pad', 'crop'):
                add(shape, box, edge, mask=True, cov=True, nan=True)
    return cs


def replay(f):
    from photutils.background import Background2D
    p = f['params']
    if p.get('kind') == 'meta':
        s = dict(p['scen'])
        s['shape'] = tuple(s['shape'])
        s['box'] = tuple(s['box'])
        msg = _meta_check(s)
        return msg is not None, str(msg)
    from .. import facade   # stubs operate on plain floats too
    MeanEst, RangeEst, rep_interp = _stubs()
    w = f['witness']
    H, W = p['shape']
    d = arr_from_witness(w, 'd', (H, W))
    mask = mask_from_witness(w, 'm', (H, W)) if p['mask'] else None
    cov = mask_from_witness(w, 'c', (H, W)) if p['cov'] else None
    fill = float(w.get('fill', 0.0))
    pct = float(w.get('pct', 10.0))
    m0 = None if mask is None else mask.copy()
    c0 = None if cov is None else cov.copy()

    class M:
        sigma_clip = None

        def __call__(self, data, axis=None, masked=False):
            with warnings.catch_warnings():
                warnings.simplefilter('ignore')
                return np.nanmean(data, axis=axis)

    class R:
        sigma_clip = None

        def __call__(self, data, axis=None, masked=False):
            with warnings.catch_warnings():
                warnings.simplefilter('ignore')
                return np.nanmax(data, axis=axis) - np.nanmin(data, axis=axis)

    def interp(mesh, **kw):
        bs = kw['box_size']
        shp = kw['shape']
        out = np.empty(shp)
        for y in range(shp[0]):
            for x in range(shp[1]):
                out[y, x] = mesh[min(y // bs[0], mesh.shape[0] - 1),
                                 min(x // bs[1], mesh.shape[1] - 1)]
        return out
    with warnings.catch_warnings():
        warnings.simplefilter('ignore')
        try:
            b = Background2D(d, tuple(p['box']), mask=mask,
                             coverage_mask=cov, fill_value=fill,
                             exclude_percentile=pct, sigma_clip=None,
                             bkg_estimator=M(), bkgrms_estimator=R(),
                             interpolator=interp, filter_size=1,
                             edge_method=p['edge'])
            mesh = np.array(b.background_mesh)
            npix = np.array(b.npixels_mesh)
            bkg = np.array(b.background)
        except ValueError as e:
            return False, f'raised {e!r}'
    if 'input-modified' in f['key']:
        bad = (mask is not None and not np.array_equal(mask, m0)) or (
            cov is not None and not np.array_equal(cov, c0))
        return bad, 'caller mask arrays changed' if bad else 'unchanged'
    layout = _boxes((H, W), tuple(p['box']), p['edge'])
    msgs = []
    bad = False
    for j, row in enumerate(layout):
        for i, pix in enumerate(row):
            good = [q for q in pix if not (m0 is not None and m0[q])
                    and not (c0 is not None and c0[q])
                    and np.isfinite(d[q])]
            if npix[j, i] != len(good):
                bad = True
                msgs.append(f'npixels_mesh[{j},{i}]={npix[j, i]} expected '
                            f'{len(good)}')
            nbox = p['box'][0] * p['box'][1]
            if good and len(good) > (1 - pct / 100) * nbox:
                exp = np.mean([d[q] for q in good])
                if not np.isclose(mesh[j, i], exp, rtol=1e-9, atol=1e-12):
                    bad = True
                    msgs.append(f'mesh[{j},{i}]={mesh[j, i]} expected {exp}')
    for y in range(H):
        for x in range(W):
            mj = min(y // p['box'][0], len(layout) - 1)
            mi = min(x // p['box'][1], len(layout[0]) - 1)
            exp = fill if (c0 is not None and c0[y, x]) else mesh[mj, mi]
            if not (np.isclose(bkg[y, x], exp, rtol=1e-9, atol=1e-12)
                    or (np.isnan(bkg[y, x]) and np.isnan(exp))):
                bad = True
                msgs.append(f'background[{y},{x}]={bkg[y, x]} expected {exp}')
    return bad, f'data={d.tolist()} mask=' \
        f'{None if m0 is None else m0.tolist()} cov=' \
        f'{None if c0 is None else c0.tolist()} pct={pct} fill={fill} ' + \
        '; '.join(msgs[:4])
