"""C05 - SegmentationImage attributes always describe the current label array.

The *history* (which attributes are read, which mutator is called with which
arguments, in which order) is a vector of solver variables with finite domains;
the explorer enumerates every admissible history within the bound (all-SAT) and
runs the real SegmentationImage on it, comparing with a set-theoretic reference
model and with a freshly constructed object after every step.
"""
import warnings

import numpy as np
import z3

from ..sym import Stats, explore

META = dict(
    functions=['photutils.segmentation.core:SegmentationImage.reassign_label',
               'photutils.segmentation.core:SegmentationImage.reassign_labels',
               'photutils.segmentation.core:SegmentationImage.relabel_consecutive',
               'photutils.segmentation.core:SegmentationImage.keep_labels',
               'photutils.segmentation.core:SegmentationImage.remove_labels',
               'photutils.segmentation.core:SegmentationImage.remove_border_labels',
               'photutils.segmentation.core:SegmentationImage.remove_masked_labels',
               'photutils.segmentation.core:SegmentationImage._update_deblend_label_map',
               'photutils.segmentation.core:SegmentationImage.labels',
               'photutils.segmentation.core:SegmentationImage.slices',
               'photutils.segmentation.core:SegmentationImage.segments',
               'photutils.segmentation.core:SegmentationImage.polygons',
               'photutils.segmentation.core:SegmentationImage.copy'],
    bounds=('start states: pool of 8 label arrays (2x3..5x6; gaps, '
            'disconnected label, nested, edge-touching, all-zero; int16/'
            'uint8/int32/int64; a real deblend_sources result with a '
            'non-empty deblend map); histories: [0-2 attribute reads] + one '
            'mutator with every argument combination in range (labels '
            '1..max+1 and pairs, new_label 0..max+2, start_label 1..3, '
            'border_width 0..2, relabel, partial_overlap, 6 masks) + full '
            'comparison; quick: 1 mutator step (plus a second step from a '
            'reduced argument set); thorough: 2 full mutator steps'),
    assumptions=['finite-domain history variables: the solver acts as an '
                 'exhaustive enumerator of histories within the bound; the '
                 'label arrays themselves are concrete members of the pool'],
    stubs=[],
    outside=['label arrays outside the pool', 'histories longer than 2 '
             'mutators', 'plotting helpers (cmap, imshow, to_patches)'],
    min_obligations=200,
    rule='history = (reads, op, args)* ; distinct by construction',
)

ATTRS = ['labels', 'nlabels', 'max_label', 'areas', 'slices', 'bbox',
         'background_area', 'is_consecutive', 'missing_labels', 'segments',
         'polygons', 'data_ma', 'deblended_labels', 'deblended_labels_map',
         'deblended_labels_inverse_map', '_raw_slices', 'shape']


PAIR_ATTRS = ['labels', 'slices', 'areas', 'segments', 'polygons',
              'deblended_labels', '_raw_slices', 'bbox', 'nlabels']


def _pool():
    from photutils.segmentation import SegmentationImage
    P = {}
    P['gaps-int64'] = np.array([[1, 1, 0, 0, 4, 4],
                                [0, 0, 0, 0, 0, 4],
                                [0, 0, 3, 3, 0, 0],
                                [7, 0, 0, 0, 0, 5],
                                [7, 7, 0, 5, 5, 5]])
    P['disconnected-int32'] = np.array([[2, 0, 2, 0],
                                        [0, 0, 0, 0],
                                        [5, 5, 0, 2],
                                        [0, 0, 0, 0]], dtype=np.int32)
    P['nested-int16'] = np.array([[1, 1, 1, 1, 1],
                                  [1, 0, 0, 0, 1],
                                  [1, 0, 3, 0, 1],
                                  [1, 0, 0, 0, 1],
                                  [1, 1, 1, 1, 1]], dtype=np.int16)
    P['edge-uint8'] = np.array([[9, 0, 0, 2],
                                [0, 0, 0, 2],
                                [0, 6, 0, 0],
                                [0, 0, 0, 3],
                                [4, 4, 0, 3]], dtype=np.uint8)
    P['zeros'] = np.zeros((4, 4), dtype=int)
    P['single'] = np.array([[0, 0, 0, 0], [0, 3, 3, 0], [0, 0, 0, 0],
                            [0, 0, 0, 0]])
    P['consecutive'] = np.array([[1, 1, 0, 2], [0, 0, 0, 2], [3, 0, 0, 0],
                                 [3, 0, 4, 4]], dtype=np.int32)
    return P


def _deblended():
    """A real deblend_sources result (non-empty deblend map), small."""
    from astropy.modeling.models import Gaussian2D
    from photutils.segmentation import deblend_sources, detect_sources
    yy, xx = np.mgrid[:14, :18]
    img = (Gaussian2D(50, 5, 6, 1.4, 1.4)(xx, yy)
           + Gaussian2D(40, 10, 7, 1.4, 1.4)(xx, yy)
           + Gaussian2D(30, 15, 2, 1.0, 1.0)(xx, yy))
    segm = detect_sources(img, 1.0, npixels=4)
    with warnings.catch_warnings():
        warnings.simplefilter('ignore')
        out = deblend_sources(img, segm, npixels=4, nlevels=16,
                              contrast=0.001, progress_bar=False)
    assert len(out.deblended_labels) >= 2
    return out


def _start(name):
    from photutils.segmentation import SegmentationImage
    if name == 'deblended':
        return _deblended()
    return SegmentationImage(_pool()[name].copy())


def _consec(arr, start=1):
    labs = np.unique(arr[arr != 0])
    out = np.zeros_like(arr)
    for k, l in enumerate(labs):
        out[arr == l] = k + start
    return out


MASKS = 6


def _mask(shape, k):
    H, W = shape
    m = np.zeros(shape, bool)
    if k == 0:
        pass
    elif k == 1:
        m[:] = True
    elif k == 2:
        m[0, :] = True
    elif k == 3:
        m[:, W - 1] = True
    elif k == 4:
        m[H // 2:, : W // 2 + 1] = True
    else:
        m[1:3, 1:3] = True
    return m


def _apply(seg, ref, op, a):
    """Apply operation to the real object and to the reference array.
    Returns (new_ref, expect_exception_class_or_None, description)."""
    labs = [int(v) for v in np.unique(ref[ref != 0])]
    dt = ref.dtype

    def valid(ls):
        return len(ls) > 0 and all(l in labs for l in ls)

    if op == 'reassign_label':
        l, new, rl = a
        desc = f'reassign_label({l}, {new}, relabel={rl})'
        call = lambda: seg.reassign_label(l, new, relabel=rl)  # noqa
        if not valid([l]):
            return ref, ValueError, desc, call
        r = ref.copy()
        r[ref == l] = new
        return (_consec(r) if rl else r).astype(dt), None, desc, call
    if op == 'reassign_labels':
        ls, new, rl = a
        desc = f'reassign_labels({ls}, {new}, relabel={rl})'
        call = lambda: seg.reassign_labels(list(ls), new, relabel=rl)  # noqa
        if len(ls) == 0:
            return (_consec(ref) if rl else ref).astype(dt), None, desc, call
        if not valid(ls):
            return ref, ValueError, desc, call
        r = ref.copy()
        r[np.isin(ref, ls)] = new
        return (_consec(r) if rl else r).astype(dt), None, desc, call
    if op == 'relabel_consecutive':
        (s,) = a
        desc = f'relabel_consecutive({s})'
        call = lambda: seg.relabel_consecutive(start_label=s)  # noqa
        if not labs:
            return ref, None, desc, call
        return _consec(ref, s).astype(dt), None, desc, call
    if op in ('keep_labels', 'remove_labels', 'keep_label', 'remove_label'):
        ls, rl = a
        desc = f'{op}({ls}, relabel={rl})'
        if op.endswith('s'):
            call = lambda: getattr(seg, op)(list(ls), relabel=rl)  # noqa
        else:
            call = lambda: getattr(seg, op)(ls[0], relabel=rl)  # noqa
        if len(ls) == 0 and op.endswith('s'):
            # documented for empty label sets? keep_labels([]) is rejected by
            # check_labels only if invalid; an empty set is valid and means
            # "keep nothing" / "remove nothing"
            r = ref.copy()
            if op == 'keep_labels':
                r[:] = 0
            return (_consec(r) if rl else r).astype(dt), None, desc, call
        if not valid(ls):
            return ref, ValueError, desc, call
        r = ref.copy()
        if op.startswith('keep'):
            r[~np.isin(ref, ls)] = 0
        else:
            r[np.isin(ref, ls)] = 0
        return (_consec(r) if rl else r).astype(dt), None, desc, call
    if op in ('remove_border_labels', 'remove_masked_labels'):
        if op == 'remove_border_labels':
            w, po, rl = a
            desc = f'remove_border_labels({w}, partial_overlap={po}, ' \
                   f'relabel={rl})'
            call = lambda: seg.remove_border_labels(  # noqa
                w, partial_overlap=po, relabel=rl)
            if w >= min(ref.shape) / 2:
                return ref, ValueError, desc, call
            m = np.zeros(ref.shape, bool)
            if w > 0:
                m[:w, :] = m[-w:, :] = True
                m[:, :w] = m[:, -w:] = True
        else:
            k, po, rl = a
            m = _mask(ref.shape, k)
            desc = f'remove_masked_labels(mask{k}, partial_overlap={po}, ' \
                   f'relabel={rl})'
            call = lambda: seg.remove_masked_labels(  # noqa
                m.copy(), partial_overlap=po, relabel=rl)
        rem = set(np.unique(ref[m])) - {0}
        if not po:
            rem -= set(np.unique(ref[~m]))
        r = ref.copy()
        r[np.isin(ref, list(rem))] = 0
        return (_consec(r) if rl else r).astype(dt), None, desc, call
    if op == 'set_data':
        (k,) = a
        new = np.roll(ref, 1, axis=1).copy() if k == 0 else \
            (ref * 2).astype(dt) if k == 1 else np.zeros_like(ref)
        desc = f'data = variant{k}'

        def call():
            seg.data = new.copy()
        return new, None, desc, call
    raise ValueError(op)


def _compare(seg, ref, after_set_data, extra):
    """-> None or (site, message); non-fatal findings appended to extra."""
    from photutils.segmentation import SegmentationImage
    d = np.asarray(seg.data)
    if d.dtype != ref.dtype:
        return 'dtype', f'dtype {d.dtype} != {ref.dtype}'
    if not np.array_equal(d, ref):
        return 'data', f'data {d.tolist()} != expected {ref.tolist()}'
    fresh = SegmentationImage(ref.copy())
    for a in ('labels', 'areas', 'missing_labels'):
        x, y = np.asarray(getattr(seg, a)), np.asarray(getattr(fresh, a))
        if x.shape != y.shape or not np.array_equal(x, y):
            return a, f'{a} {x.tolist()} != fresh {y.tolist()}'
    for a in ('nlabels', 'max_label', 'background_area', 'is_consecutive',
              'shape'):
        if getattr(seg, a) != getattr(fresh, a):
            return a, f'{a} {getattr(seg, a)} != fresh {getattr(fresh, a)}'
    if list(seg.slices) != list(fresh.slices):
        return 'slices', f'slices {seg.slices} != fresh {fresh.slices}'
    if [b.extent for b in seg.bbox] != [b.extent for b in fresh.bbox]:
        return 'bbox', 'bbox differs from fresh'
    # one polygon / segment entry per label, even for non-connected labels
    try:
        npoly = len(fresh.polygons)
    except ImportError:
        npoly = None
    if npoly is not None and npoly != fresh.nlabels:
        extra.append(('polygons-per-label',
                      f'{npoly} polygons for {fresh.nlabels} labels (labels '
                      f'{fresh.labels.tolist()} of {ref.tolist()}); segments '
                      f'then raises'))
    else:
        s1, s2 = seg.segments, fresh.segments
        if len(s1) != len(s2) or len(s1) != fresh.nlabels or any(
                a.label != b.label or a.area != b.area
                or a.slices != b.slices
                or not np.array_equal(a.data, b.data)
                for a, b in zip(s1, s2)):
            return 'segments', 'segments differ from fresh / not one per ' \
                               'label'
        if npoly is not None:
            p1, p2 = seg.polygons, fresh.polygons
            if len(p1) != len(p2) or any(not a.equals(b)
                                         for a, b in zip(p1, p2)):
                return 'polygons', 'polygons differ from fresh'
    if not np.array_equal(seg.data_ma.mask, fresh.data_ma.mask):
        return 'data_ma', 'data_ma mask differs'
    # deblend bookkeeping names only labels present in the array
    present = set(int(v) for v in fresh.labels)
    named = set(int(v) for v in np.atleast_1d(seg.deblended_labels))
    for par, ch in seg.deblended_labels_inverse_map.items():
        named |= set(int(v) for v in np.atleast_1d(ch))
    named |= set(int(k) for k in seg.deblended_labels_map)
    if not named <= present:
        return 'deblend-map', (f'deblend bookkeeping names labels '
                               f'{sorted(named - present)} absent from the '
                               f'array (labels {sorted(present)})')
    dm = seg.deblended_labels_map
    inv = seg.deblended_labels_inverse_map
    if set(int(k) for k in dm) != set(int(v) for ch in inv.values()
                                      for v in np.atleast_1d(ch)):
        return 'deblend-map', 'deblended_labels_map and inverse map disagree'
    if sorted(int(v) for v in np.atleast_1d(seg.deblended_labels)) != \
            sorted(set(int(k) for k in dm)):
        return 'deblend-map', 'deblended_labels not the keys of the map'
    if after_set_data and (len(dm) or len(inv)):
        return 'deblend-map', 'deblend maps not reset by data assignment'
    c = seg.copy()
    if not np.array_equal(c.data, ref) or c.data is seg.data:
        return 'copy', 'copy() is not an independent equal copy'
    return None


def _choose_op(ctx, i, ref, reduced):
    """Solver-chosen operation + arguments for step i."""
    labs = [int(v) for v in np.unique(ref[ref != 0])]
    mx = max(labs) if labs else 0
    cand = labs + [mx + 1] if not reduced else (labs[:2] + [mx + 1])
    ops = ['reassign_label', 'reassign_labels', 'relabel_consecutive',
           'keep_label', 'keep_labels', 'remove_label', 'remove_labels',
           'remove_border_labels', 'remove_masked_labels', 'set_data']
    op = ctx.choice(f'op{i}', ops)
    if op in ('reassign_label', 'reassign_labels'):
        if op == 'reassign_label':
            ls = (ctx.choice(f'l{i}', cand),)
        else:
            pairs = [()] + [(a,) for a in cand[:2]] + [
                (a, b) for k, a in enumerate(cand) for b in cand[k + 1:]]
            if reduced:
                pairs = pairs[:4]
            ls = ctx.choice(f'ls{i}', pairs)
        news = [0] + cand + [mx + 2] if not reduced else [cand[0], mx + 2]
        new = ctx.choice(f'new{i}', news)
        rl = ctx.flag(f'relabel{i}')
        return op, ((ls[0] if op == 'reassign_label' else ls), new, rl)
    if op == 'relabel_consecutive':
        return op, (ctx.choice(f'start{i}', [1, 2, 3]),)
    if op in ('keep_label', 'remove_label'):
        return op, ((ctx.choice(f'l{i}', cand),), ctx.flag(f'relabel{i}'))
    if op in ('keep_labels', 'remove_labels'):
        pairs = [()] + [(a,) for a in cand[:2]] + [
            (a, b) for k, a in enumerate(cand) for b in cand[k + 1:]]
        if reduced:
            pairs = pairs[:4]
        return op, (ctx.choice(f'ls{i}', pairs), ctx.flag(f'relabel{i}'))
    if op == 'remove_border_labels':
        return op, (ctx.choice(f'w{i}', [0, 1, 2]), ctx.flag(f'po{i}'),
                    ctx.flag(f'relabel{i}'))
    if op == 'remove_masked_labels':
        return op, (ctx.choice(f'mask{i}', MASKS), ctx.flag(f'po{i}'),
                    ctx.flag(f'relabel{i}'))
    return op, (ctx.choice(f'variant{i}', 3),)


def run_case(case):
    nsteps = case['steps']
    cnt = dict(n=0)
    samples = []

    def fn(ctx):
        seg = _start(case['start'])
        ref = np.array(seg.data).copy()
        hist = []
        after_set = False
        for i in range(nsteps):
            reads = []
            nread = case.get('reads', 2)
            for j in range(nread):
                pool = case.get('read0') if (j == 0 and case.get('read0')) \
                    else (['-'] + (PAIR_ATTRS if nread > 1 else ATTRS))
                r = ctx.choice(f'read{i}_{j}', pool)
                if r != '-':
                    reads.append(r)
            reduced = case.get('reduced') and i > 0
            op, args = _choose_op(ctx, i, ref, reduced or
                                  case.get('reduced_all'))
            for r in reads:
                try:
                    getattr(seg, r)
                except ImportError:
                    pass
                except ValueError:
                    if r != 'segments':
                        raise
            newref, exc, desc, call = _apply(seg, ref, op, args)
            if case.get('twin') and exc is None and op == 'relabel_consecutive':
                newref = newref + (newref > 0)     # perturbed oracle
            hist.append((reads, desc))
            ctx.stats.obligations += 1
            cnt['n'] += 1
            params = dict(start=case['start'], history=hist)
            try:
                with warnings.catch_warnings():
                    warnings.simplefilter('ignore')
                    call()
                raised = None
            except Exception as e:  # noqa
                raised = e
            if exc is not None:
                if raised is None or not isinstance(raised, exc):
                    ctx.stats.sat += 1
                    ctx.find(f'{op}:no-error', f'{desc}: expected {exc.__name__}'
                             f' for invalid labels, got {raised!r}',
                             ctx.witness(), params=params)
                    return
                newref = ref
            elif raised is not None:
                ctx.stats.sat += 1
                ctx.find(f'{op}:raised:{type(raised).__name__}',
                         f'{desc} raised {raised!r}', ctx.witness(),
                         params=params)
                return
            if op == 'set_data':
                after_set = True
            extra = []
            bad = _compare(seg, newref, after_set and op == 'set_data', extra)
            for site, msg in extra:
                ctx.find(f'{site}:{case["start"]}', msg, ctx.witness(),
                         params=params)
            if bad:
                ctx.stats.sat += 1
                site, msg = bad
                ctx.find(f'{op}:{site}', f'after {hist}: {msg}',
                         ctx.witness(), params=params)
                return
            ctx.stats.unsat += 1
            ref = newref
        if len(samples) < 3:
            samples.append(dict(start=case['start'], history=hist))

    _, st, f = explore(fn)
    return dict(stats=st, findings=f, samples=samples, nontrivial=cnt['n'])


def cases(tier, seed):
    cs = []
    starts = list(_pool()) + ['deblended']
    for s in starts:
        cs.append(dict(name=f'hist1-{s}', start=s, steps=1, reads=1))
    cs.append(dict(name='hist1-twin-gaps', start='gaps-int64', steps=1,
                   reads=0, twin=True))
    for a in PAIR_ATTRS:
        cs.append(dict(name=f'hist1-readpairs-deblended-{a}',
                       start='deblended', steps=1, reads=2, read0=[a],
                       reduced_all=True))
    for s in ['gaps-int64', 'deblended']:
        cs.append(dict(name=f'hist2-reduced-{s}', start=s, steps=2, reads=0,
                       reduced_all=True))
    if tier == 'thorough':
        for s in starts:
            for a in PAIR_ATTRS:
                cs.append(dict(name=f'hist1-readpairs-{s}-{a}', start=s,
                               steps=1, reads=2, read0=[a]))
            # two mutators: full argument range first, reduced second
            cs.append(dict(name=f'hist2-{s}', start=s, steps=2, reads=0,
                           reduced=True))
            # read - mutate - read - mutate with reduced arguments
            cs.append(dict(name=f'hist2-reads-{s}', start=s, steps=2,
                           reads=1, reduced_all=True))
    return cs


def replay(f):
    """Re-run the recorded history on the real class (no solver)."""
    from ..sym import Ctx
    p = f['params']
    seg = _start(p['start'])
    ref = np.array(seg.data).copy()
    import re
    after_set = False
    for reads, desc in p['history']:
        for r in reads:
            try:
                getattr(seg, r)
            except (ImportError, ValueError):
                pass
        op = desc.split('(')[0].split(' = ')[0].strip()
        if op == 'data':
            k = int(desc[-1])
            op, args = 'set_data', (k,)
        else:
            inner = desc[desc.index('(') + 1:desc.rindex(')')]
            kv = dict(re.findall(r'(\w+)=(True|False)', inner))
            rl = kv.get('relabel') == 'True'
            po = kv.get('partial_overlap') == 'True'
            head = re.sub(r',?\s*\w+=(True|False)', '', inner)
            vals = eval('(' + head.replace('mask', '') + ',)')  # noqa
            if op in ('reassign_label',):
                args = (vals[0], vals[1], rl)
            elif op == 'reassign_labels':
                args = (tuple(vals[0]), vals[1], rl)
            elif op == 'relabel_consecutive':
                args = (vals[0],)
            elif op in ('keep_label', 'remove_label', 'keep_labels',
                        'remove_labels'):
                args = (tuple(vals[0]), rl)
            else:
                args = (vals[0], po, rl)
        newref, exc, d2, call = _apply(seg, ref, op, args)
        try:
            with warnings.catch_warnings():
                warnings.simplefilter('ignore')
                call()
            raised = None
        except Exception as e:  # noqa
            raised = e
        if exc is not None:
            if raised is None or not isinstance(raised, exc):
                return True, f'{d2}: expected {exc.__name__}, got {raised!r}'
            newref = ref
        elif raised is not None:
            return True, f'{d2} raised {raised!r}'
        if op == 'set_data':
            after_set = True
        extra = []
        bad = _compare(seg, newref, after_set and op == 'set_data', extra)
        if bad:
            return True, f'after {p["history"]}: {bad[1]}'
        if extra and f['key'].startswith(extra[0][0]):
            return True, extra[0][1]
        ref = newref
    return False, 'history replays without discrepancy'
