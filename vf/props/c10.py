"""C10 - no public call modifies the arrays, tables or models passed to it.

Two halves (DESIGN 3/C10):
 (a) the frame condition asserted on every path of the symbolic harnesses of
     C02, C04, C07, C11, C14, C16, C17, C19 (re-run here in a reduced form);
 (b) for entry points that cannot carry symbolic arrays, the *representation
     and data-condition vector* (container kind, NaN present, negatives
     present, mask given / mask dtype, view of a larger array) is a vector of
     solver variables; every feasible vector is executed on a generated input
     and deep snapshots are compared bit for bit.
"""
import copy
import warnings

import numpy as np
import z3

from ..sym import Stats, explore

META = dict(
    functions=['photutils.centroids.gaussian:centroid_1dg',
               'photutils.centroids.gaussian:centroid_2dg',
               'photutils.centroids.core:centroid_com',
               'photutils.centroids.core:centroid_quadratic',
               'photutils.centroids.core:centroid_sources',
               'photutils.detection.starfinder:StarFinder._get_raw_catalog',
               'photutils.detection.starfinder:_StarFinderCatalog.cutout_data',
               'photutils.detection.daofinder:DAOStarFinder.find_stars',
               'photutils.detection.irafstarfinder:IRAFStarFinder.find_stars',
               'photutils.detection.peakfinder:find_peaks',
               'photutils.background.background_2d:Background2D._calculate_stats',
               'photutils.background.background_2d:Background2D._combine_all_masks',
               'photutils.profiles.core:ProfileBase._compute_mask',
               'photutils.aperture.stats:ApertureStats._make_aperture_cutouts',
               'photutils.aperture.photometry:aperture_photometry',
               'photutils.segmentation.catalog:SourceCatalog._prepare_cutouts',
               'photutils.segmentation.detect:detect_sources',
               'photutils.segmentation.deblend:deblend_sources',
               'photutils.psf.photometry:PSFPhotometry.__call__',
               'photutils.psf.photometry:IterativePSFPhotometry.__call__',
               'photutils.datasets.images:make_model_image',
               'photutils.utils.errors:calc_total_error',
               'photutils.isophote.ellipse:Ellipse.fit_image',
               'photutils.background.core:MMMBackground.calc_background',
               'photutils.background.local_background:LocalBackground.__call__',
               'photutils.segmentation.detect:detect_threshold',
               'photutils.morphology.core:data_properties',
               'photutils.aperture.mask:ApertureMask.get_values',
               'photutils.aperture.core:PixelAperture.do_photometry',
               'photutils.psf.utils:fit_fwhm',
               'photutils.segmentation.core:SegmentationImage.make_source_mask',
               'photutils.utils.cutouts:CutoutImage.__init__',
               'photutils.psf.image_models:ImagePSF.evaluate',
               'photutils.psf.matching.fourier:create_matching_kernel',
               'photutils.psf.epsf:EPSFBuilder.__call__'],
    bounds=('33 entry points x container in {ndarray, MaskedArray, Quantity, '
            'view of a larger array} x {NaN present} x {negative pixels '
            'inside sources} x mask in {none, bool, int8} x error given x '
            '{error / mask of a wrong shape, so that the call raises}; '
            'every feasible combination accepted by the entry point is run '
            'once on a generated 40x44 scene (Background2D additionally with '
            'box widths equal to the image width); every lazily evaluated '
            'public property is read before the comparison'),
    assumptions=['finite product enumerated by the solver (all-SAT over the '
                 'representation vector), not a for-all over data values; the '
                 'symbolic for-all over data values is the frame condition in '
                 'the C02/C04/C07/C11/C14/C16/C17/C19 harnesses'],
    stubs=[],
    outside=['entry points not in the list (I/O, WCS helpers, model plotting)',
             'documented in-place mutators of their own object '
             '(SegmentationImage relabelling, profile normalize)'],
    min_obligations=100,
)


# ---- input generation --------------------------------------------------------
def _scene(nan, neg):
    from astropy.modeling.models import Gaussian2D
    yy, xx = np.mgrid[:40, :44]
    img = np.zeros((40, 44))
    # (the fifth source is a close companion: its segment lies inside the
    # Kron / circular aperture of the second one)
    for (x, y, a, s) in [(10, 9, 60, 1.6), (30, 12, 90, 1.5),
                         (13, 29, 50, 1.8), (31, 30, 70, 1.4),
                         (34.6, 13.2, 60, 1.3)]:
        img += Gaussian2D(a, x, y, s, s)(xx, yy)
    img += np.random.default_rng(3).normal(0, 0.3, img.shape)
    if neg:
        # negative pixels inside the star cutouts
        img[9, 11] = -5.0
        img[12, 31] = -7.0
        img[29, 12] = -3.0
    if nan:
        img[10, 12] = np.nan
        img[20, 20] = np.nan
        img[30, 29] = np.nan
    return img


def _wrap(arr, container, unit=None):
    import astropy.units as u
    if container == 'view':
        big = np.zeros((arr.shape[0] + 6, arr.shape[1] * 2 + 4), arr.dtype)
        v = big[3:-3, 2:-2:2]
        v[...] = arr
        return v, big
    if container == 'masked':
        m = np.zeros(arr.shape, bool)
        m[0, 0] = True
        m[5, 7] = True
        return np.ma.MaskedArray(arr.copy(), mask=m), None
    if container == 'quantity':
        return arr.copy() * (unit or u.Jy), None
    return arr.copy(), None


_depth = [0]


def _snap(o):
    """Deep, comparable snapshot of an argument."""
    import astropy.units as u
    from astropy.table import Table
    if o is None:
        return None
    if isinstance(o, np.ma.MaskedArray):
        return ('ma', o.dtype.str, np.array(o.data, copy=True),
                np.array(np.ma.getmaskarray(o), copy=True), o.fill_value)
    if isinstance(o, u.Quantity):
        return ('q', str(o.unit), o.dtype.str, np.array(o.value, copy=True))
    if isinstance(o, np.ndarray):
        return ('a', o.dtype.str, o.shape, np.array(o, copy=True))
    if isinstance(o, Table):
        return ('t', list(o.colnames), {c: _snap(np.asarray(o[c]))
                                        for c in o.colnames},
                copy.deepcopy(dict(o.meta)))
    if hasattr(o, 'parameters') and hasattr(o, 'param_names'):
        return ('m', list(o.param_names), np.array(o.parameters, copy=True),
                {p: (getattr(o, p).fixed, getattr(o, p).bounds)
                 for p in o.param_names})
    if hasattr(o, 'positions') and hasattr(o, '_params'):
        return ('ap', repr(o))
    if hasattr(o, 'data') and hasattr(o, 'labels'):   # SegmentationImage
        return ('seg', _snap(np.asarray(o.data)))
    if hasattr(o, '__dict__') and not isinstance(o, type) and _depth[0] < 2:
        # helper objects handed to a call (finders, groupers, estimators,
        # sigma clips, interpolators): their public configuration
        _depth[0] += 1
        try:
            pub = {}
            for k in sorted(vars(o)):
                if k.startswith('_'):
                    continue
                v = getattr(o, k, None)
                if callable(v) and not hasattr(v, '__dict__'):
                    continue
                pub[k] = _snap(v)
            return ('obj', type(o).__name__, pub)
        finally:
            _depth[0] -= 1
    if isinstance(o, (int, float, str, bool, tuple, type(None), np.generic)):
        return ('v', o)
    return ('o', type(o).__name__)


def _same(a, b):
    if type(a) is not type(b):
        return False
    if isinstance(a, tuple):
        return len(a) == len(b) and all(_same(x, y) for x, y in zip(a, b))
    if isinstance(a, dict):
        return a.keys() == b.keys() and all(_same(a[k], b[k]) for k in a)
    if isinstance(a, np.ndarray):
        if a.shape != b.shape or a.dtype != b.dtype:
            return False
        if a.dtype.kind in 'fc':
            return bool(np.array_equal(a, b, equal_nan=True))
        return bool(np.array_equal(a, b))
    if isinstance(a, float):
        return a == b or (a != a and b != b)
    if isinstance(a, list):
        return len(a) == len(b) and all(_same(x, y) for x, y in zip(a, b))
    return a == b


# ---- entry points ------------------------------------------------------------
def _entries():
    """name -> (accepted containers, needs, callable(inputs) )"""
    import astropy.units as u
    from astropy.stats import SigmaClip
    from astropy.table import QTable
    from photutils.aperture import (ApertureStats, CircularAnnulus,
                                    CircularAperture, aperture_photometry)
    from photutils.background import Background2D, LocalBackground
    from photutils.centroids import (centroid_1dg, centroid_2dg, centroid_com,
                                     centroid_quadratic, centroid_sources)
    from photutils.datasets import make_model_image
    from photutils.detection import (DAOStarFinder, IRAFStarFinder,
                                     StarFinder, find_peaks)
    from photutils.isophote import Ellipse, EllipseGeometry
    from photutils.profiles import CurveOfGrowth, RadialProfile
    from photutils.psf import (CircularGaussianPRF, IterativePSFPhotometry,
                               PSFPhotometry, SourceGrouper)
    from photutils.segmentation import (SourceCatalog, SourceFinder,
                                        deblend_sources, detect_sources,
                                        detect_threshold)
    from photutils.utils import calc_total_error
    E = {}
    POS = [(10.0, 9.0), (30.0, 12.0), (13.0, 29.0), (31.0, 30.0)]
    ALL = ('ndarray', 'view', 'masked', 'quantity')
    NOQ = ('ndarray', 'view', 'masked')

    def val(x):
        return getattr(x, 'value', x)

    def cut(x):
        return x[3:16, 3:18]

    def e_aperphot(i):
        ap = [CircularAperture(POS, 3.0), CircularAnnulus(POS, 4.0, 6.0)]
        i['extra'] = ap
        aperture_photometry(i['data'], ap, error=i['error'], mask=i['mask'])
    E['aperture_photometry'] = (('ndarray', 'view', 'quantity'), e_aperphot)

    def e_aperstats(i):
        ap = CircularAperture(POS, 3.5)
        sc = SigmaClip(3.0)
        i['extra'] = [ap, sc]
        st = ApertureStats(i['data'], ap, error=i['error'], mask=i['mask'],
                           sigma_clip=sc, local_bkg=0.1 if not
                           hasattr(i['data'], 'unit') else 0.1 * i[
                               'data'].unit)
        st.to_table(st.properties)
    E['ApertureStats'] = (('ndarray', 'view', 'quantity'), e_aperstats)

    def e_bkg(i):
        cov = None
        if i['mask'] is not None:
            cov = np.zeros(i['mask'].shape, bool)
            cov[:, :3] = True
            i['extra'] = [cov]
        from photutils.background import (BkgZoomInterpolator,
                                          MADStdBackgroundRMS,
                                          MMMBackground)
        helpers = [SigmaClip(3.0, maxiters=5), MMMBackground(),
                   MADStdBackgroundRMS(), BkgZoomInterpolator()]
        i['extra'] = i.get('extra', []) + helpers
        b = Background2D(i['data'], i['box'], mask=i['mask'],
                         coverage_mask=cov, filter_size=3,
                         exclude_percentile=40.0, sigma_clip=helpers[0],
                         bkg_estimator=helpers[1],
                         bkgrms_estimator=helpers[2],
                         interpolator=helpers[3])
        for a in ('background', 'background_rms', 'background_mesh',
                  'background_rms_mesh', 'background_median',
                  'background_rms_median', 'npixels_mesh', 'npixels_map'):
            getattr(b, a)
    E['Background2D'] = (ALL, e_bkg)

    def e_detect(i):
        d = i['data']
        thr = 3.0 if not hasattr(d, 'unit') else 3.0 * d.unit
        segm = detect_sources(d, thr, 5, mask=i['mask'])
        detect_threshold(val(d) if isinstance(d, np.ma.MaskedArray) else d,
                         2.0, mask=i['mask'])
        if segm is not None:
            i['extra'] = [segm]
            deblend_sources(val(d), segm, 5, nlevels=8, progress_bar=False)
    E['detect+deblend'] = (('ndarray', 'view', 'quantity'), e_detect)

    def e_finder(i):
        SourceFinder(5, progress_bar=False)(i['data'], 3.0, mask=i['mask'])
    E['SourceFinder'] = (('ndarray', 'view'), e_finder)

    def e_catalog(i):
        d = i['data']
        # a user-made segmentation in which the close companion is its own
        # segment, lying inside its neighbour's Kron / circular apertures
        from photutils.segmentation import SegmentationImage
        yy, xx = np.mgrid[:40, :44]
        srcs = [(10, 9), (30, 12), (13, 29), (31, 30), (34.6, 13.2)]
        dist = np.array([np.hypot(xx - x, yy - y) for x, y in srcs])
        lab = np.argmin(dist, axis=0) + 1
        lab[(np.nan_to_num(val(d)) <= 3.0) | (np.min(dist, axis=0) > 6)] = 0
        segm = SegmentationImage(lab)
        bkg = np.full(val(d).shape, 0.2)
        if hasattr(d, 'unit'):
            bkg = bkg * d.unit
        i['extra'] = [segm, bkg]
        cat = SourceCatalog(d, segm, error=i['error'], mask=i['mask'],
                            background=bkg, localbkg_width=4,
                            progress_bar=False)
        for p_ in cat.properties:
            getattr(cat, p_)
        cat.to_table()
        cat.kron_photometry((2.5, 1.4))
        cat.circular_photometry(3.0)
        cat.fluxfrac_radius(0.5)
    E['SourceCatalog'] = (('ndarray', 'view', 'quantity'), e_catalog)

    def e_peaks(i):
        d = i['data']
        thr = 5.0 if not hasattr(d, 'unit') else 5.0 * d.unit
        thr2 = np.full(val(d).shape, 5.0)
        if hasattr(d, 'unit'):
            thr2 = thr2 * d.unit
        i['extra'] = [thr2]
        find_peaks(d, thr, box_size=5, mask=i['mask'],
                   centroid_func=centroid_com, error=i['error'])
        find_peaks(d, thr2, footprint=np.ones((3, 3)), mask=i['mask'],
                   border_width=2)
    E['find_peaks'] = (('ndarray', 'view', 'quantity'), e_peaks)

    def e_dao(i):
        DAOStarFinder(5.0, 3.0)(i['data'], mask=i['mask'])
    E['DAOStarFinder'] = (NOQ, e_dao)

    def e_iraf(i):
        IRAFStarFinder(5.0, 3.0)(i['data'], mask=i['mask'])
    E['IRAFStarFinder'] = (NOQ, e_iraf)

    def e_star(i):
        yy, xx = np.mgrid[-3:4, -3:4]
        kern = 2.5 * np.exp(-(xx ** 2 + yy ** 2) / (2 * 1.5 ** 2))
        i['extra'] = [kern]
        StarFinder(5.0, kern)(i['data'], mask=i['mask'])
    E['StarFinder'] = (NOQ, e_star)

    def e_com(i):
        with np.errstate(all='ignore'):
            centroid_com(cut(i['data']), mask=None if i['mask'] is None
                         else cut(i['mask']))
            centroid_quadratic(cut(i['data']), mask=None if i['mask'] is None
                               else cut(i['mask']).astype(bool))
    E['centroid_com/quadratic'] = (ALL, e_com)

    def e_1dg(i):
        m = None if i['mask'] is None else cut(i['mask'])
        e = None if i['error'] is None else cut(i['error'])
        centroid_1dg(cut(i['data']), error=e, mask=m)
    E['centroid_1dg'] = (ALL, e_1dg)

    def e_2dg(i):
        m = None if i['mask'] is None else cut(i['mask'])
        e = None if i['error'] is None else cut(i['error'])
        centroid_2dg(cut(i['data']), error=e, mask=m)
    E['centroid_2dg'] = (ALL, e_2dg)

    def e_csrc(i):
        fp = np.ones((5, 5), bool)
        fp[0, 0] = False
        i['extra'] = [fp]
        centroid_sources(val(i['data']) if isinstance(
            i['data'], np.ma.MaskedArray) else i['data'], [10, 30.2],
            [9, 12.1], footprint=fp, mask=i['mask'],
            centroid_func=centroid_quadratic)
    E['centroid_sources'] = (('ndarray', 'view'), e_csrc)

    def e_prof(i):
        for cls, rad in ((RadialProfile, np.array([0, 1, 2, 4, 6.0])),
                         (CurveOfGrowth, np.array([1, 2, 4, 6.0]))):
            i.setdefault('extra', []).append(rad)
            p = cls(i['data'], (10.2, 9.1), rad, error=i['error'],
                    mask=i['mask'])
            p.profile, p.profile_error, p.area, p.radius
            if cls is RadialProfile:
                p.data_profile
            p.normalize()
            p.unnormalize()
    E['profiles'] = (('ndarray', 'view', 'quantity'), e_prof)

    def _psf_inputs(i):
        model = CircularGaussianPRF(fwhm=3.6)
        init = QTable(dict(x=[10.1, 30.2, 12.9, 31.0],
                           y=[9.0, 12.1, 29.0, 29.9]))
        # a second table that already uses the canonical column names
        init2 = QTable(dict(x_init=[10.1, 30.2, 12.9, 31.0],
                            y_init=[9.0, 12.1, 29.0, 29.9],
                            flux_init=[900., 1300., 800., 1000.]))
        if hasattr(i['data'], 'unit'):
            init2['flux_init'] = init2['flux_init'] * i['data'].unit
        i['extra'] = [model, init, init2]
        i['init2'] = init2
        return model, init

    def e_psf(i):
        model, init = _psf_inputs(i)
        grouper, lb = SourceGrouper(5), LocalBackground(5, 8)
        i['extra'] = i['extra'] + [grouper, lb]
        ph = PSFPhotometry(model, (5, 5), grouper=grouper,
                           localbkg_estimator=lb, aperture_radius=4)
        ph(i['data'], mask=i['mask'], error=i['error'], init_params=init)
        ph(i['data'], mask=i['mask'], error=i['error'],
           init_params=i['init2'])
        ph.make_model_image(val(i['data']).shape, psf_shape=(9, 9))
        ph.make_residual_image(i['data'], psf_shape=(9, 9))
    E['PSFPhotometry'] = (('ndarray', 'view', 'quantity'), e_psf)

    def e_ipsf(i):
        model, init = _psf_inputs(i)
        finder = DAOStarFinder(6.0, 3.6)
        i['extra'] = i['extra'] + [finder]
        ph = IterativePSFPhotometry(model, (5, 5), finder=finder,
                                    aperture_radius=4, maxiters=2)
        ph(i['data'], mask=i['mask'], error=i['error'], init_params=init)
        ph(i['data'], mask=i['mask'], error=i['error'],
           init_params=i['init2'])
    E['IterativePSFPhotometry'] = (('ndarray', 'view'), e_ipsf)

    def e_model(i):
        model = CircularGaussianPRF(fwhm=3.0)
        tbl = QTable(dict(x_0=[5.0, 50.0, 20.5], y_0=[6.0, 7.0, -30.0],
                          flux=[10., 20., 30.], local_bkg=[0.1, 0.2, 0.3]))
        i['extra'] = [model, tbl]
        make_model_image((20, 22), model, tbl, model_shape=(7, 7))
    E['make_model_image'] = (('ndarray',), e_model)

    def e_toterr(i):
        d = i['data']
        bk = np.full(val(d).shape, 0.5)
        gain = np.full(val(d).shape, 2.0)
        if hasattr(d, 'unit'):
            bk = bk * d.unit
            gain = gain * (u.electron / d.unit)
        i['extra'] = [bk, gain]
        calc_total_error(d, bk, gain)
    E['calc_total_error'] = (('ndarray', 'view', 'quantity'), e_toterr)

    def e_selftest(i):
        # deliberately modifies its input: self-test of the snapshot machinery
        d = i['data']
        np.asarray(getattr(d, 'value', d))[3, 4] += 1.0
    E['__selftest__'] = (('ndarray', 'view', 'masked', 'quantity'),
                         e_selftest)

    # ---- second batch ---------------------------------------------------
    def e_estimators(i):
        import photutils.background as pb
        d = i['data']
        sc = SigmaClip(3.0)
        i['extra'] = [sc]
        for name in ('MeanBackground', 'MedianBackground',
                     'ModeEstimatorBackground', 'MMMBackground',
                     'SExtractorBackground', 'BiweightLocationBackground',
                     'StdBackgroundRMS', 'MADStdBackgroundRMS',
                     'BiweightScaleBackgroundRMS'):
            est = getattr(pb, name)(sigma_clip=sc)
            est(d)
            est.calc_background(d, axis=1) if hasattr(
                est, 'calc_background') else est.calc_background_rms(
                    d, axis=1)
    E['background-estimators'] = (ALL, e_estimators)

    def e_localbkg(i):
        xs = np.array([10.0, 30.0, 13.0, 2.0])
        ys = np.array([9.0, 12.0, 29.0, 1.0])
        i['extra'] = [xs, ys]
        LocalBackground(4, 8)(i['data'], xs, ys, mask=None if i[
            'mask'] is None else i['mask'].astype(bool))
    E['LocalBackground'] = (('ndarray', 'view', 'quantity'), e_localbkg)

    def e_threshold(i):
        d = i['data']
        bk = np.full(val(d).shape, 0.3)
        er = np.full(val(d).shape, 0.4) + 0.01 * np.arange(
            val(d).shape[1])[None, :]
        if hasattr(d, 'unit'):
            bk, er = bk * d.unit, er * d.unit
        sc = SigmaClip(2.5)
        i['extra'] = [bk, er, sc]
        detect_threshold(d, 2.5, background=bk, error=er, mask=i['mask'])
        detect_threshold(d, 2.5, mask=i['mask'], sigma_clip=sc)
    E['detect_threshold'] = (('ndarray', 'view', 'quantity'), e_threshold)

    def e_dataprops(i):
        from photutils.morphology import data_properties, gini
        m = None if i['mask'] is None else cut(i['mask']).astype(bool)
        bk = np.full(cut(val(i['data'])).shape, 0.2)
        if hasattr(i['data'], 'unit'):
            bk = bk * i['data'].unit
        i['extra'] = [bk]
        pr = data_properties(cut(i['data']), mask=m, background=bk)
        pr.xcentroid, pr.semimajor_sigma, pr.orientation, pr.segment_flux
        gini(cut(val(i['data'])), mask=m)
    E['data_properties+gini'] = (('ndarray', 'view', 'quantity'),
                                 e_dataprops)

    def e_apermask(i):
        from photutils.aperture import EllipticalAperture
        d = i['data']
        for ap in (CircularAperture((10.3, 9.2), 3.0),
                   EllipticalAperture((42.5, 12.0), 4.0, 2.0, theta=0.4),
                   CircularAnnulus((1.0, 38.5), 2.0, 4.5)):
            for method in ('exact', 'center', 'subpixel'):
                m = ap.to_mask(method=method, subpixels=3)
                i.setdefault('extra', []).append(m.data)
                m.cutout(d, fill_value=0)
                m.multiply(d)
                m.get_values(d, mask=None if i['mask'] is None else i[
                    'mask'].astype(bool))
                m.to_image(val(d).shape)
            ap.do_photometry(d, error=i['error'], mask=None if i[
                'mask'] is None else i['mask'].astype(bool))
            ap.area_overlap(d, mask=None if i['mask'] is None else i[
                'mask'].astype(bool))
    E['ApertureMask+do_photometry'] = (('ndarray', 'view', 'quantity'),
                                       e_apermask)

    def e_fitfwhm(i):
        from photutils.psf import fit_2dgaussian, fit_fwhm
        pos = np.array([(10.0, 9.0), (30.0, 12.0), (13.0, 29.0)])
        i['extra'] = [pos]
        m = None if i['mask'] is None else i['mask'].astype(bool)
        fit_fwhm(i['data'], xypos=pos, fit_shape=7, mask=m, error=i['error'])
        fit_2dgaussian(i['data'], xypos=pos, fit_shape=7, mask=m,
                       error=i['error'])
    E['fit_fwhm+fit_2dgaussian'] = (('ndarray', 'view'), e_fitfwhm)

    def e_segm(i):
        from photutils.segmentation import SegmentationImage
        lab = np.zeros((40, 44), np.int32)
        lab[7:12, 8:13] = 4
        lab[10:15, 28:33] = 9
        lab[27:32, 11:16] = 2
        lab[0:3, 40:44] = 9          # label 9 is not connected
        lab0 = lab.copy()
        segm = SegmentationImage(lab)
        i['extra'] = [lab]
        for a in ('labels', 'areas', 'slices', 'bbox', 'segments',
                  'polygons', 'missing_labels', 'is_consecutive', 'cmap',
                  'data_ma', 'background_area', 'max_label', 'nlabels',
                  'shape', 'patches'):
            getattr(segm, a, None)
        segm.make_source_mask(size=3)
        segm.make_source_mask(footprint=np.ones((3, 3)))
        segm.get_area(4), segm.get_index(9), segm.check_labels([2, 4])
        segm.get_areas([2, 9]), segm.get_indices([2, 9])
        segm.to_patches()
        segm.make_cmap(seed=1)
        segm.copy()
        if not np.array_equal(lab, lab0):
            raise AssertionError('label array modified by read access')
    E['SegmentationImage-reads'] = (('ndarray',), e_segm)

    def e_cutout(i):
        from photutils.utils import CutoutImage, ShepardIDWInterpolator
        d = i['data']
        for pos, mode in (((9, 10), 'trim'), ((0, 43), 'partial'),
                          ((39, 1), 'partial')):
            c = CutoutImage(d, pos, (7, 9), mode=mode, fill_value=np.nan)
            c.data, c.bbox_original, c.slices_cutout
        rng = np.random.default_rng(5)
        xy = rng.uniform(0, 40, (30, 2))
        vals = rng.normal(size=30)
        pts = rng.uniform(0, 40, (7, 2))
        i['extra'] = [xy, vals, pts]
        ShepardIDWInterpolator(xy, vals)(pts, n_neighbors=5)
    E['CutoutImage+IDW'] = (('ndarray', 'view', 'quantity'), e_cutout)

    def e_imagepsf(i):
        from photutils.psf import GriddedPSFModel, ImagePSF
        from astropy.nddata import NDData
        yy, xx = np.mgrid[-6:7, -6:7]
        arr = np.exp(-(xx ** 2 + yy ** 2) / 8.0)
        stack = np.array([arr * k for k in (1.0, 1.1, 0.9, 1.05)])
        i['extra'] = [arr, stack]
        m = ImagePSF(arr, flux=3.0, x_0=6.2, y_0=5.9, oversampling=2)
        m(xx + 6.0, yy + 6.0)
        nd = NDData(stack, meta=dict(grid_xypos=[(0, 0), (20, 0), (0, 20),
                                                 (20, 20)], oversampling=2))
        g = GriddedPSFModel(nd, flux=2.0, x_0=7.3, y_0=12.1)
        g(xx + 7.0, yy + 12.0)
        g.copy()(xx + 3.0, yy + 2.0)
    E['ImagePSF+GriddedPSFModel'] = (('ndarray',), e_imagepsf)

    def e_matching(i):
        from photutils.psf.matching import (TopHatWindow,
                                            create_matching_kernel,
                                            resize_psf)
        yy, xx = np.mgrid[-12:13, -12:13]
        p1 = np.exp(-(xx ** 2 + yy ** 2) / (2 * 2.0 ** 2))
        p2 = np.exp(-(xx ** 2 + yy ** 2) / (2 * 3.0 ** 2))
        p1 /= p1.sum()
        p2 /= p2.sum()
        i['extra'] = [p1, p2]
        create_matching_kernel(p1, p2, window=TopHatWindow(0.4))
        resize_psf(p1, 0.1, 0.05)
    E['psf-matching'] = (('ndarray',), e_matching)

    def e_epsf(i):
        from astropy.nddata import NDData
        from astropy.table import Table
        from photutils.psf import EPSFBuilder, extract_stars
        d = val(i['data'])
        d = np.nan_to_num(np.asarray(d, float))
        nd = NDData(d)
        tbl = Table(dict(x=[10.0, 30.0, 13.0, 31.0], y=[9.0, 12.0, 29.0,
                                                        30.0]))
        i['extra'] = [d, tbl]
        stars = extract_stars(nd, tbl, size=11)
        EPSFBuilder(oversampling=2, maxiters=2, progress_bar=False)(stars)
    E['extract_stars+EPSFBuilder'] = (('ndarray', 'view'), e_epsf)

    def e_plot(i):
        import matplotlib
        matplotlib.use('Agg')
        import matplotlib.pyplot as plt
        from photutils.aperture import (BoundingBox, EllipticalAnnulus,
                                        EllipticalAperture,
                                        RectangularAnnulus,
                                        RectangularAperture)
        from photutils.segmentation import SegmentationImage
        fig, ax = plt.subplots()
        try:
            pos = np.array(POS)
            apers = [CircularAperture(pos.copy(), 3.0),
                     CircularAnnulus(pos.copy(), 3.0, 5.0),
                     EllipticalAperture(pos.copy(), 4.0, 2.0, theta=0.3),
                     EllipticalAnnulus(pos.copy(), 2.0, 4.0, 3.0, theta=0.3),
                     RectangularAperture(pos.copy(), 4.0, 3.0, theta=0.2),
                     RectangularAnnulus(pos.copy(), 2.0, 5.0, 3.0, theta=0.2),
                     CircularAperture((10.0, 9.0), 2.0)]
            i['extra'] = list(apers)
            for ap in apers:
                ap.plot(ax=ax, origin=(3, 2))
                ap._to_patch(origin=(1.5, 2.5))
                ap.bbox
            BoundingBox(1, 8, 2, 9).plot(ax=ax, origin=(2, 1))
            lab = np.zeros((40, 44), int)
            lab[7:12, 8:13] = 4
            lab[10:15, 28:33] = 9
            i['extra'].append(lab)
            segm = SegmentationImage(lab)
            segm.plot_patches(ax=ax, origin=(3, 2), scale=2.0)
            segm.imshow(ax=ax)
            for cls, rad in ((RadialProfile, np.array([0, 1, 2, 4, 6.0])),
                             (CurveOfGrowth, np.array([1, 2, 4, 6.0]))):
                pr = cls(i['data'], (10.2, 9.1), rad, error=i['error'],
                         mask=i['mask'])
                pr.plot(ax=ax)
                pr.plot_error(ax=ax)
            b = Background2D(i['data'], (10, 11), mask=i['mask'])
            b.plot_meshes(ax=ax, outlines=True)
        finally:
            plt.close(fig)
    E['plotting'] = (('ndarray', 'view', 'quantity'), e_plot)

    def e_ellipse(i):
        geo = EllipseGeometry(30.0, 12.0, 4.0, 0.1, 0.3)
        d = i['data']
        Ellipse(np.ma.masked_invalid(val(d)) if not isinstance(
            d, np.ma.MaskedArray) else d, geo).fit_image(
                maxsma=6.0, minsma=1.0, step=0.3)
    E['Ellipse.fit_image'] = (('ndarray', 'masked'), e_ellipse)
    return E


_last_raise = [None]


def _check(entry, container, nan, neg, maskk, err, boxw=None, bad=False,
           errma=False):
    """Run one entry point on one generated input; -> None or message.
    ``bad``: error and mask are given a wrong shape so that the call raises
    (the frame condition also covers calls that raise)."""
    import astropy.units as u
    E = _entries()
    accepted, fn = E[entry]
    img = _scene(nan, neg)
    data, big = _wrap(img, container)
    unit = getattr(data, 'unit', None)
    mask = None
    if maskk != 'none':
        mask = np.zeros(img.shape, bool)
        mask[8:10, 9:12] = True
        mask[25, :] = True
        if maskk == 'int8':
            mask = mask.astype(np.int8)
    error = None
    if err:
        error = 0.3 + 0.01 * np.arange(img.shape[1])[None, :] + \
            0.02 * np.arange(img.shape[0])[:, None]  # non-uniform
        if unit is not None:
            error = error * unit
        elif errma:
            # a MaskedArray error map with unmasked non-finite values
            error = error.copy()
            error[6, 7] = np.nan
            error[28, 13] = np.inf
            error = np.ma.MaskedArray(error,
                                      mask=np.zeros(error.shape, bool))
    if bad:
        if error is not None:
            error = error[:-1, :-2]
        if mask is not None:
            mask = mask[:-3]
    inputs = dict(data=data, mask=mask, error=error,
                  box=(8, boxw) if boxw else (10, 11))
    before = {k: _snap(v) for k, v in inputs.items() if k != 'box'}
    before_big = None if big is None else big.copy()
    raised = None
    with warnings.catch_warnings():
        warnings.simplefilter('ignore')
        try:
            fn(inputs)
        except Exception as e:  # noqa
            raised = e
    # arguments created inside the entry wrapper (kernels, tables, models..)
    # are snapshotted by the wrapper itself through a second clean run
    _last_raise[0] = raised
    for k in before:
        if not _same(before[k], _snap(inputs[k])):
            return (f'{entry}: argument {k!r} ({container}, nan={nan}, '
                    f'neg={neg}, mask={maskk}) was modified'
                    + (f' (call raised {raised!r})' if raised else ''))
    if big is not None and not np.array_equal(big, before_big,
                                              equal_nan=True):
        return f'{entry}: memory outside the view was modified'
    return None


def _check_extra(entry, container, nan, neg, maskk, err):
    """Arguments built inside the wrapper (kernels, models, tables, apertures,
    thresholds, footprints): compare with an identically built pristine copy."""
    E = _entries()
    accepted, fn = E[entry]

    def build():
        img = _scene(nan, neg)
        data, big = _wrap(img, container)
        mask = None
        if maskk != 'none':
            mask = np.zeros(img.shape, bool)
            mask[8:10, 9:12] = True
            mask[25, :] = True
            if maskk == 'int8':
                mask = mask.astype(np.int8)
        error = None
        if err:
            error = 0.3 + 0.01 * np.arange(img.shape[1])[None, :] + \
            0.02 * np.arange(img.shape[0])[:, None]  # non-uniform
            if hasattr(data, 'unit'):
                error = error * data.unit
        return dict(data=data, mask=mask, error=error, box=(10, 11))

    class Stop(Exception):
        pass
    # pristine extras: run the wrapper with the library call disabled is not
    # possible generically, so snapshot extras right after a full run on one
    # input set and compare with the extras of a second, independent run in
    # which the entry wrapper is interrupted before the library call by
    # construction of the same objects -> both runs build identical objects;
    # a mutation shows up as a difference between run 1 (after) and the
    # deterministic construction (before) captured by deep-copying at
    # assignment time.
    inputs = build()
    snaps = {}
    orig_setitem = dict.__setitem__

    class Rec(dict):
        def __setitem__(self, k, v):
            if k == 'extra':
                snaps['before'] = [_snap(x) for x in v]
            orig_setitem(self, k, v)

        def setdefault(self, k, d=None):
            if k not in self:
                self[k] = d
            return self[k]
    rec = Rec(inputs)
    with warnings.catch_warnings():
        warnings.simplefilter('ignore')
        try:
            fn(rec)
        except Exception:  # noqa
            pass
    if 'extra' not in rec or 'before' not in snaps:
        return None
    after = [_snap(x) for x in rec['extra']]
    # lists that were appended to after the first snapshot: compare prefix
    for k, (b, a) in enumerate(zip(snaps['before'], after)):
        if not _same(b, a):
            return (f'{entry}: auxiliary argument #{k} '
                    f'({type(rec["extra"][k]).__name__}) was modified '
                    f'({container}, nan={nan}, neg={neg}, mask={maskk})')
    return None


def _run_entry(case):
    entry = case['entry']
    cnt = dict(n=0)
    samples = []
    accepted = _entries()[entry][0]

    def fn(ctx):
        container = ctx.choice('container', list(accepted))
        nan = ctx.flag('nan')
        neg = ctx.flag('neg')
        maskk = ctx.choice('mask', ['none', 'bool', 'int8'])
        err = ctx.flag('error')
        boxw = None
        if entry == 'Background2D':
            boxw = ctx.choice('boxw', [11, 44, 22])
        bad = ctx.flag('badshape') if (err or maskk != 'none') else False
        errma = ctx.flag('error-masked') if (
            err and container != 'quantity') else False
        ctx.stats.obligations += 1
        cnt['n'] += 1
        msg = _check(entry, container, nan, neg, maskk, err, boxw, bad, errma)
        if _last_raise[0] is not None and not nan and maskk != 'int8' \
                and not bad and not errma and container in ('ndarray',
                                                            'view'):
            # vacuity guard: the plain call must actually run
            raise RuntimeError(f'entry {entry} raised on a plain input: '
                               f'{_last_raise[0]!r}')
        if msg is None and not bad and not errma:
            msg = _check_extra(entry, container, nan, neg, maskk, err)
        params = dict(entry=entry, container=container, nan=nan, neg=neg,
                      mask=maskk, err=err, boxw=boxw, bad=bad, errma=errma)
        if msg is None:
            ctx.stats.unsat += 1
        else:
            ctx.stats.sat += 1
            what = 'aux' if 'auxiliary' in msg else (
                'outside-view' if 'outside' in msg else msg.split("'")[1])
            ctx.find(f'modified:{entry}:{what}:{container}', msg,
                     ctx.witness(), params=params)
        if len(samples) < 2:
            samples.append(params)

    _, st, f = explore(fn)
    return dict(stats=st, findings=f, samples=samples, nontrivial=cnt['n'])


def _run_sym(case):
    """Frame condition of a symbolic harness of another property."""
    import importlib
    mod = importlib.import_module(f'vf.props.{case["mod"]}')
    sub = [c for c in mod.cases('quick', 0) if not c.get('twin')]
    sub = [c for c in sub if case['pick'] in c['name']][:case.get('n', 2)]
    st = Stats()
    findings = []
    samples = []
    nt = 0
    for c in sub:
        out = mod.run_case(c)
        st.add(out['stats'])
        nt += out.get('nontrivial', 0)
        for f in out['findings']:
            if 'input-modified' in f['key']:
                f = dict(f)
                f['params'] = dict(kind='sym', mod=case['mod'],
                                   inner=f.get('params'), key=f['key'])
                f['key'] = f'sym:{case["mod"]}:' + f['key']
                findings.append(f)
        samples.append(dict(frame_condition_of=c['name']))
    return dict(stats=st, findings=findings, samples=samples[:1],
                nontrivial=nt)


def run_case(case):
    return _run_sym(case) if case['kind'] == 'sym' else _run_entry(case)


def cases(tier, seed):
    cs = []
    for e in _entries():
        cs.append(dict(kind='entry', name=f'entry-{e}', entry=e,
                       twin=(e == '__selftest__')))
    for mod, pick in [('c02', 'stub-2x2-box2x2-upto1'), ('c04', '2x2-c8'),
                      ('c17', 'com-2x3'), ('c19', 'rp-4x4-mid'),
                      ('c16', 'circ-in-exact'), ('c07', 'touching-mask1'),
                      ('c11', '4x4-box2x2-pad-cov'), ('c14', 'peaks-2x2')]:
        cs.append(dict(kind='sym', name=f'frame-{mod}', mod=mod, pick=pick,
                       n=1 if tier == 'quick' else 4))
    return cs


def replay(f):
    p = f['params']
    if p.get('kind') == 'sym':
        import importlib
        mod = importlib.import_module(f'vf.props.{p["mod"]}')
        g = dict(f)
        g['params'] = p['inner']
        g['key'] = p['key']
        return mod.replay(g)
    msg = _check(p['entry'], p['container'], p['nan'], p['neg'], p['mask'],
                 p['err'], p.get('boxw'), bool(p.get('bad')),
                 bool(p.get('errma')))
    if msg is None and not p.get('bad') and not p.get('errma'):
        msg = _check_extra(p['entry'], p['container'], p['nan'], p['neg'],
                           p['mask'], p['err'])
    return msg is not None, str(msg)
