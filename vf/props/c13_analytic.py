"""C13, analytic models: the real ``evaluate`` methods of the Gaussian / Moffat
PSF and PRF models run on symbolic centres, widths, fluxes and angles with
``erf``, ``exp``, ``cos``/``sin`` and ``pow`` replaced by axiomatised stubs
(vf/ufmath.py).  What is decided (for all real parameter values with positive
widths):

* PRF models: the sum over any pixel block [-N..N]^2 telescopes to
  flux/4 * (erf(u_right) - erf(u_left)) * (erf(v_top) - erf(v_bottom)) with
  the block's outer pixel edges (half-integers) scaled by 1/(sqrt(2) sigma) -
  i.e. adjacent pixels integrate adjoining intervals with no gap or overlap
  and the right width; with erf(+-inf) = +-1 (trusted mathematics) this is
  "sums to flux over an unbounded grid for any sub-pixel centre and width".
  Pixel values are >= 0 and block sums <= flux for flux >= 0; values are
  linear in flux, point-symmetric about (x_0, y_0), and the sigma / FWHM /
  elliptical(theta = 0) forms agree.
* PSF models: the exponent is -1/2 d^T Sigma^-1 d with Sigma = R diag(sx^2,
  sy^2) R^T and the amplitude times 2 pi sx sy is flux (=> integrates to flux
  by the Gaussian integral, trusted); the elliptical model with equal widths
  equals the circular one for every rotation; non-negative, maximal at the
  centre, point-symmetric, linear in flux.  Moffat: base and exponent of the
  power and the amplitude flux (beta-1)/(pi alpha^2).
"""
import math
from fractions import Fraction

import numpy as np
import z3

from ..ratnf import NotRational, cross
from ..sym import SymReal, explore, term
from ..ufmath import UFEnv
from ..ufmath import erf as uf_erf


def _fm():
    from .. import facade
    facade.install()
    import photutils.psf.functional_models as fm
    fm.erf = uf_erf          # environment stub (scipy.special.erf)
    return fm


def _eq(ctx, a, b, label):
    """discharge a == b; rational identities are cross-multiplied first."""
    try:
        n = cross(term(a), term(b), ctx.uf.trig_pairs())
        return ctx.holds(n == 0, label)
    except NotRational:
        return ctx.holds(term(a) == term(b), label)


def _eq_all(ctx, A, B, label):
    """element-wise equality of two arrays as one obligation."""
    pairs = ctx.uf.trig_pairs()
    cs = []
    for a, b in zip(np.ravel(A), np.ravel(B)):
        try:
            cs.append(cross(term(a), term(b), pairs) == 0)
        except NotRational:
            cs.append(term(a) == term(b))
    return ctx.holds(z3.And(*cs), label)


def _args_match(ctx, n_code, key, detail, params):
    """the oracle's erf arguments must all have been identified with
    arguments the code used (otherwise the value obligation is a hard
    satisfiability problem over unrelated erf values): structural check with a
    cheap witness."""
    ctx.stats.obligations += 1
    if len(ctx.uf.erf_t.entries) == n_code:
        ctx.stats.unsat += 1
        return True
    ctx.stats.sat += 1
    # (no model is requested: the mismatch is structural, i.e. for generic
    # parameter values; the replay evaluates the real model at fixed ones)
    ctx.find(key, detail, {}, params=params)
    return False


def _K(fm):
    return Fraction(float(fm.GAUSSIAN_FWHM_TO_SIGMA))


PRFS = ('CircularGaussianPRF', 'CircularGaussianSigmaPRF',
        'IntegratedGaussianPRF', 'GaussianPRF')


def _prf_eval(fm, name, xx, yy, flux, x0, y0, w):
    m = getattr(fm, name)()
    if name == 'GaussianPRF':
        return m.evaluate(xx, yy, flux, x0, y0, w[0], w[1], 0.0)
    return m.evaluate(xx, yy, flux, x0, y0, w[0])


def _prf_sigmas(fm, name, w):
    if name == 'GaussianPRF':
        return w[0] * _K(fm), w[1] * _K(fm)
    if name == 'CircularGaussianPRF':
        return w[0] * _K(fm), w[0] * _K(fm)
    return w[0], w[0]


def run_prf(case):
    fm = _fm()
    name, N, twin = case['model'], case['N'], case.get('twin')
    cnt = dict(n=0)
    samples = []
    P = dict(kind='analytic', sub='prf', model=name, N=N)

    def fn(ctx):
        ctx.uf = UFEnv(ctx)
        x0, y0, flux = ctx.real('x0'), ctx.real('y0'), ctx.real('flux')
        nw = 2 if name == 'GaussianPRF' else 1
        w = [ctx.real(f'w{i}') for i in range(nw)]
        for v in w:
            ctx.assume(v > 0)
        yy, xx = np.mgrid[-N:N + 1, -N:N + 1]
        r = _prf_eval(fm, name, xx, yy, flux, x0, y0, w)
        cnt['n'] += 1
        n_code = len(ctx.uf.erf_t.entries)
        sx, sy = _prf_sigmas(fm, name, w)
        half = Fraction(2, 5) if twin else Fraction(1, 2)
        rt2 = Fraction(float(np.sqrt(2)))
        ex = ctx.uf.erf((N + half - x0) / (rt2 * sx)) - ctx.uf.erf(
            (-N - half - x0) / (rt2 * sx))
        ey = ctx.uf.erf((N + half - y0) / (rt2 * sy)) - ctx.uf.erf(
            (-N - half - y0) / (rt2 * sy))
        tot = r.sum()
        if not _args_match(
                ctx, n_code, f'prf:edges:{name}', 'the erf arguments of the '
                'outermost pixels are not the block edges (half-integers) '
                'scaled by 1/(sqrt2 sigma)', dict(P, ob='edges')):
            return
        res, mdl = _eq(ctx, tot, flux / 4 * ex * ey, 'telescope')
        if res == 'sat':
            ctx.find(f'prf:telescope:{name}', 'the sum over a pixel block is '
                     'not flux/4 * d(erf)_x * d(erf)_y of the block edges',
                     ctx.witness(mdl), params=dict(P, ob='telescope'))
        if twin:
            return
        # point symmetry about the centre (uses erf odd)
        r2 = _prf_eval(fm, name, -xx, -yy, flux, -x0, -y0, w)
        res, mdl = _eq_all(ctx, r, r2, 'sym')
        if res == 'sat':
            ctx.find(f'prf:symmetry:{name}', 'not point-symmetric about '
                     '(x_0, y_0)', ctx.witness(mdl), params=dict(P, ob='sym'))
        # linear in flux
        a = ctx.real('a')
        r3 = _prf_eval(fm, name, xx, yy, a * flux, x0, y0, w)
        res, mdl = _eq_all(ctx, r3, a * r, 'linear')
        if res == 'sat':
            ctx.find(f'prf:linear:{name}', 'not linear in flux',
                     ctx.witness(mdl), params=dict(P, ob='linear'))
        if name != 'GaussianPRF':
            r4 = _prf_eval(fm, name, yy, xx, flux, y0, x0, w)
            res, mdl = _eq_all(ctx, r4, r, 'transpose')
            if res == 'sat':
                ctx.find(f'prf:transpose:{name}', 'circular PRF not symmetric '
                         'under x<->y', ctx.witness(mdl),
                         params=dict(P, ob='transpose'))
        # non-negative, block sum bounded by the flux: every pixel is
        # flux/4 * ax_i * ay_j (identity), the per-axis factors are positive
        # and add up to the block's erf differences (linear), and a product
        # of such factors is within [0, 4] (lemma over fresh variables)
        ax = [ctx.uf.erf((i + half - x0) / (rt2 * sx)) - ctx.uf.erf(
            (i - half - x0) / (rt2 * sx)) for i in range(-N, N + 1)]
        ay = [ctx.uf.erf((j + half - y0) / (rt2 * sy)) - ctx.uf.erf(
            (j - half - y0) / (rt2 * sy)) for j in range(-N, N + 1)]
        fac = np.empty(r.shape, dtype=object)
        for j in range(2 * N + 1):
            for i in range(2 * N + 1):
                fac[j, i] = flux / 4 * ax[i] * ay[j]
        res, mdl = _eq_all(ctx, r, fac, 'factor')
        if res == 'sat':
            ctx.find(f'prf:factor:{name}', 'pixel value is not flux/4 * '
                     'd(erf) over the pixel in x * d(erf) over the pixel in y',
                     ctx.witness(mdl), params=dict(P, ob='factor'))
        res, mdl = ctx.holds(z3.And(
            *[term(v) > 0 for v in ax + ay],
            term(ex) <= 2, term(ey) <= 2, term(ex) >= 0, term(ey) >= 0),
            'factors-positive')
        if res == 'sat':
            ctx.find(f'prf:nonneg:{name}', 'a per-pixel erf difference is '
                     'not positive (negative pixel for flux >= 0)',
                     ctx.witness(mdl), params=dict(P, ob='nonneg'))
        F, A, B = [ctx.fresh(n) for n in 'FAB']
        ctx.holds(z3.Implies(z3.And(F >= 0, A >= 0, B >= 0, A <= 2, B <= 2),
                             z3.And(F / 4 * A * B >= 0, F / 4 * A * B <= F)),
                  'product-lemma')
        if not samples:
            samples.append(dict(model=name, N=N, erf_args=len(
                ctx.uf.erf_t.entries), pixel00=str(r[N, N])[:200]))

    _, st, f = explore(fn, timeout_ms=60000)
    return dict(stats=st, findings=f, samples=samples, nontrivial=cnt['n'])


def run_prf_rot(case):
    """GaussianPRF at a symbolic rotation: what holds for every angle."""
    fm = _fm()
    N = case['N']
    cnt = dict(n=0)
    P = dict(kind='analytic', sub='prfrot', N=N)
    twin = case.get('twin')

    def fn(ctx):
        ctx.uf = UFEnv(ctx)
        x0, y0, flux, th = (ctx.real('x0'), ctx.real('y0'), ctx.real('flux'),
                            ctx.real('th'))
        w = [ctx.real('w0'), ctx.real('w1')]
        for v in w:
            ctx.assume(v > 0)
        yy, xx = np.mgrid[-N:N + 1, -N:N + 1]
        G = fm.GaussianPRF()
        r = G.evaluate(xx, yy, flux, x0, y0, w[0], w[1], th)
        cnt['n'] += 1
        n_code = len(ctx.uf.erf_t.entries)
        if len(ctx.uf.trig) != 1:
            ctx.find('prfrot:shape', 'GaussianPRF.evaluate no longer uses one '
                     'rotation angle', {}, params=dict(P, ob='shape'))
            return
        c, s_ = SymReal(ctx.uf.trig[0][1]), SymReal(ctx.uf.trig[0][2])
        K = _K(fm)
        rt2 = Fraction(float(np.sqrt(2)))
        half = Fraction(2, 5) if twin else Fraction(1, 2)
        # pixel value = flux/4 * d(erf) over [u-1/2, u+1/2] / (sqrt2 sx)
        #                      * d(erf) over [v-1/2, v+1/2] / (sqrt2 sy)
        # with (u, v) the pixel centre in the rotated frame of the model
        fac = np.empty(r.shape, dtype=object)
        pos = []
        for j in range(2 * N + 1):
            for i in range(2 * N + 1):
                dx, dy = xx[j, i] - x0, yy[j, i] - y0
                u, v = dx * c + dy * s_, -dx * s_ + dy * c
                ax = ctx.uf.erf((u + half) / (rt2 * (w[0] * K))) - \
                    ctx.uf.erf((u - half) / (rt2 * (w[0] * K)))
                ay = ctx.uf.erf((v + half) / (rt2 * (w[1] * K))) - \
                    ctx.uf.erf((v - half) / (rt2 * (w[1] * K)))
                fac[j, i] = flux / 4 * ax * ay
                pos.extend([ax, ay])
        if not _args_match(
                ctx, n_code, 'prfrot:args', 'the erf arguments are not the '
                'pixel edges in the rotated frame of the model scaled by '
                '1/(sqrt2 sigma)', dict(P, ob='args')):
            return
        res, mdl = _eq_all(ctx, r, fac, 'factor')
        if res == 'sat':
            ctx.find('prfrot:factor', 'rotated GaussianPRF pixel is not '
                     'flux/4 * d(erf)_u * d(erf)_v in the rotated frame',
                     ctx.witness(mdl), params=dict(P, ob='factor'))
        if twin:
            return
        res, mdl = ctx.holds(z3.And(*[term(v) > 0 for v in pos]),
                             'factors-positive')
        if res == 'sat':
            ctx.find('prfrot:nonneg', 'a per-axis erf difference is not '
                     'positive', ctx.witness(mdl), params=dict(P, ob='nonneg'))
        r2 = G.evaluate(-xx, -yy, flux, -x0, -y0, w[0], w[1], th)
        res, mdl = _eq_all(ctx, r, r2, 'sym')
        if res == 'sat':
            ctx.find('prfrot:symmetry', 'rotated GaussianPRF not '
                     'point-symmetric', ctx.witness(mdl),
                     params=dict(P, ob='sym'))
        a = ctx.real('a')
        r3 = G.evaluate(xx, yy, a * flux, x0, y0, w[0], w[1], th)
        res, mdl = _eq_all(ctx, r3, a * r, 'linear')
        if res == 'sat':
            ctx.find('prfrot:linear', 'rotated GaussianPRF not linear in '
                     'flux', ctx.witness(mdl), params=dict(P, ob='linear'))

    _, st, f = explore(fn, timeout_ms=60000)
    return dict(stats=st, findings=f, samples=[], nontrivial=cnt['n'])


def run_prf_forms(case):
    """sigma form == FWHM form == elliptical form at theta = 0."""
    fm = _fm()
    N = case['N']
    cnt = dict(n=0)
    P = dict(kind='analytic', sub='forms', N=N)

    def fn(ctx):
        ctx.uf = UFEnv(ctx)
        x0, y0, flux, sg = (ctx.real('x0'), ctx.real('y0'), ctx.real('flux'),
                            ctx.real('w0'))
        ctx.assume(sg > 0)
        yy, xx = np.mgrid[-N:N + 1, -N:N + 1]
        fw = sg / _K(fm)
        if case.get('twin'):
            fw = sg * 2
        ra = fm.CircularGaussianSigmaPRF().evaluate(xx, yy, flux, x0, y0, sg)
        n_code = len(ctx.uf.erf_t.entries)
        rb = fm.CircularGaussianPRF().evaluate(xx, yy, flux, x0, y0, fw)
        rc = fm.GaussianPRF().evaluate(xx, yy, flux, x0, y0, fw, fw, 0.0)
        rd = fm.IntegratedGaussianPRF().evaluate(xx, yy, flux, x0, y0, sg)
        cnt['n'] += 1
        if not _args_match(ctx, n_code, 'prf:forms:args', 'the sigma, FWHM '
                           'and elliptical forms evaluate erf at different '
                           'arguments for fwhm = sigma / '
                           'GAUSSIAN_FWHM_TO_SIGMA', dict(P, ob='args')):
            return
        for lab, o in (('fwhm', rb), ('elliptical', rc), ('integrated', rd)):
            res, mdl = _eq_all(ctx, ra, o, lab)
            if res == 'sat':
                ctx.find(f'prf:forms:{lab}', f'CircularGaussianSigmaPRF and '
                         f'the {lab} form disagree for fwhm = sigma / '
                         'GAUSSIAN_FWHM_TO_SIGMA', ctx.witness(mdl),
                         params=dict(P, ob=lab))
        # the conversion constant itself (concrete)
        ctx.stats.obligations += 1
        if abs(float(fm.GAUSSIAN_FWHM_TO_SIGMA)
               - 1 / (2 * math.sqrt(2 * math.log(2)))) < 1e-15:
            ctx.stats.unsat += 1
        else:
            ctx.stats.sat += 1
            ctx.find('prf:forms:constant', 'GAUSSIAN_FWHM_TO_SIGMA is not '
                     '1/(2 sqrt(2 ln 2))', {}, params=dict(P, ob='constant'))

    _, st, f = explore(fn, timeout_ms=60000)
    return dict(stats=st, findings=f, samples=[], nontrivial=cnt['n'])


def run_psf(case):
    fm = _fm()
    twin = case.get('twin')
    cnt = dict(n=0)
    samples = []
    P = dict(kind='analytic', sub='psf')

    def fn(ctx):
        ctx.uf = UFEnv(ctx)
        x0, y0, fx, fy, flux, th = [ctx.real(n) for n in
                                    ('x0', 'y0', 'w0', 'w1', 'flux', 'th')]
        x, y = ctx.real('x'), ctx.real('y')
        ctx.assume(fx > 0)
        ctx.assume(fy > 0)
        G = fm.GaussianPSF()
        r = G.evaluate(x, y, flux, x0, y0, fx, fy, th)
        cnt['n'] += 1
        ent = ctx.uf.exp_t.entries
        if len(ent) != 1 or len(ctx.uf.trig) < 1:
            ctx.find('psf:shape', 'GaussianPSF.evaluate no longer is one '
                     'exponential of one rotated quadratic form', {},
                     params=dict(P, ob='shape'))
            return
        arg = SymReal(ent[0]['arg'])
        c, s = SymReal(ctx.uf.trig[0][1]), SymReal(ctx.uf.trig[0][2])
        K = _K(fm)
        sx, sy = fx * K, fy * K
        dx, dy = x - x0, y - y0
        u, v = dx * c + dy * s, -dx * s + dy * c
        q = -(u * u / (2 * sx * sx) + v * v / (2 * sy * sy))
        if twin:
            q = -(u * u / (2 * sx * sx) + v * v / (2 * sx * sy))
        res, mdl = _eq(ctx, arg, q, 'quadform')
        if res == 'sat':
            ctx.find('psf:quadform', 'exponent of GaussianPSF is not '
                     '-1/2 d^T Sigma^-1 d for Sigma = R diag(sx^2, sy^2) R^T',
                     ctx.witness(mdl), params=dict(P, ob='quadform'))
        if twin or res != 'unsat':
            return
        rc = G.evaluate(x0, y0, flux, x0, y0, fx, fy, th)
        res, mdl = _eq(ctx, rc * Fraction(2 * math.pi) * sx * sy, flux,
                       'amplitude')
        if res == 'sat':
            ctx.find('psf:amplitude', 'central value * 2 pi sx sy != flux '
                     '(the model does not integrate to its flux)',
                     ctx.witness(mdl), params=dict(P, ob='amplitude'))
        # equal widths: equals the circular model for every rotation
        C = fm.CircularGaussianPSF()
        r1 = G.evaluate(x, y, flux, x0, y0, fx, fx, th)
        r2 = C.evaluate(x, y, flux, x0, y0, fx)
        res, mdl = _eq(ctx, r1, r2, 'circular')
        if res == 'sat':
            ctx.find('psf:circular', 'GaussianPSF with equal widths differs '
                     'from CircularGaussianPSF', ctx.witness(mdl),
                     params=dict(P, ob='circular'))
        rcc = C.evaluate(x0, y0, flux, x0, y0, fx)
        res, mdl = _eq(ctx, rcc * Fraction(2 * math.pi) * sx * sx, flux,
                       'amplitude-circular')
        if res == 'sat':
            ctx.find('psf:amplitude-circular', 'CircularGaussianPSF: central '
                     'value * 2 pi sigma^2 != flux', ctx.witness(mdl),
                     params=dict(P, ob='amplitude-circular'))
        # point symmetry, linearity
        rs = G.evaluate(x0 - dx, y0 - dy, flux, x0, y0, fx, fy, th)
        res, mdl = _eq(ctx, r, rs, 'sym')
        if res == 'sat':
            ctx.find('psf:symmetry', 'GaussianPSF not point-symmetric',
                     ctx.witness(mdl), params=dict(P, ob='sym'))
        a = ctx.real('a')
        rl = G.evaluate(x, y, a * flux, x0, y0, fx, fy, th)
        res, mdl = _eq(ctx, rl, a * r, 'linear')
        if res == 'sat':
            ctx.find('psf:linear', 'GaussianPSF not linear in flux',
                     ctx.witness(mdl), params=dict(P, ob='linear'))
        # sign and maximum: the exponent equals q (proved above), and -q is a
        # sum of squares over positive numbers, so exp(arg) <= exp(0) = 1
        E = SymReal(ent[0]['var'])
        U, V, A, B = [ctx.fresh(n) for n in 'UVAB']
        res, mdl = ctx.holds(z3.Implies(z3.And(A > 0, B > 0),
                                        -(U * U / A + V * V / B) <= 0),
                             'negdef')
        if res != 'unsat':
            return
        ctx.solver.add(term(arg) <= 0)       # lemma: arg == q and q <= 0
        ctx.assume(flux >= 0)
        res, mdl = ctx.holds(z3.And(term(E) <= 1, term(E) > 0), 'exp-range')
        amp = rc                               # = amplitude * exp(0)
        res2, mdl2 = ctx.holds(term(amp) >= 0, 'amp-sign')
        if res == 'sat' or res2 == 'sat':
            ctx.find('psf:range', 'GaussianPSF negative or larger than its '
                     'central value', ctx.witness(mdl or mdl2),
                     params=dict(P, ob='range'))
        res, mdl = _eq(ctx, r, amp * E, 'factor')
        if res == 'sat':
            ctx.find('psf:factor', 'GaussianPSF is not amplitude * exp(q)',
                     ctx.witness(mdl), params=dict(P, ob='factor'))
        if not samples:
            samples.append(dict(value=str(r)[:200]))

    _, st, f = explore(fn, timeout_ms=60000)
    return dict(stats=st, findings=f, samples=samples, nontrivial=cnt['n'])


def run_moffat(case):
    fm = _fm()
    twin = case.get('twin')
    cnt = dict(n=0)
    P = dict(kind='analytic', sub='moffat')

    def fn(ctx):
        ctx.uf = UFEnv(ctx)
        x0, y0, al, be, flux = [ctx.real(n) for n in
                                ('x0', 'y0', 'w0', 'w1', 'flux')]
        x, y = ctx.real('x'), ctx.real('y')
        ctx.assume(al > 0)
        ctx.assume(be > 1)
        M = fm.MoffatPSF()
        r = M.evaluate(x, y, flux, x0, y0, al, be)
        cnt['n'] += 1
        pw = ctx.uf.pows
        if len(pw) != 1:
            ctx.find('moffat:shape', 'MoffatPSF.evaluate is no longer one '
                     'power', {}, params=dict(P, ob='shape'))
            return
        base, ex, var = pw[0]
        dx, dy = x - x0, y - y0
        res, mdl = _eq(ctx, SymReal(base), 1 + (dx * dx + dy * dy) / (al * al),
                       'base')
        res2, mdl2 = _eq(ctx, SymReal(ex), -be, 'exponent')
        if res == 'sat' or res2 == 'sat':
            ctx.find('moffat:profile', 'Moffat profile is not '
                     '(1 + r^2/alpha^2)^(-beta)', ctx.witness(mdl or mdl2),
                     params=dict(P, ob='profile'))
        rc = M.evaluate(x0, y0, flux, x0, y0, al, be)
        k = Fraction(math.pi)
        want = flux if not twin else 2 * flux
        res, mdl = _eq(ctx, rc * k * al * al / (be - 1), want, 'amplitude')
        if res == 'sat':
            ctx.find('moffat:amplitude', 'central value * pi alpha^2 / '
                     '(beta - 1) != flux (does not integrate to flux)',
                     ctx.witness(mdl), params=dict(P, ob='amplitude'))
        if twin:
            return
        rs = M.evaluate(x0 - dx, y0 - dy, flux, x0, y0, al, be)
        res, mdl = _eq(ctx, r, rs, 'sym')
        if res == 'sat':
            ctx.find('moffat:symmetry', 'MoffatPSF not point-symmetric',
                     ctx.witness(mdl), params=dict(P, ob='sym'))
        a = ctx.real('a')
        rl = M.evaluate(x, y, a * flux, x0, y0, al, be)
        res, mdl = _eq(ctx, rl, a * r, 'linear')
        if res == 'sat':
            ctx.find('moffat:linear', 'MoffatPSF not linear in flux',
                     ctx.witness(mdl), params=dict(P, ob='linear'))
        ctx.assume(flux >= 0)
        res, mdl = ctx.holds(z3.And(term(r) >= 0, term(rc) >= 0), 'nonneg')
        if res == 'sat':
            ctx.find('moffat:nonneg', 'MoffatPSF negative for flux >= 0',
                     ctx.witness(mdl), params=dict(P, ob='nonneg'))

    _, st, f = explore(fn, timeout_ms=60000)
    return dict(stats=st, findings=f, samples=[], nontrivial=cnt['n'])


def _airy_check(dx, dy, radius, flux, x0, y0):
    """concrete: AiryDiskPSF against the textbook formula (incl. r = 0)."""
    import warnings
    from photutils.psf import AiryDiskPSF
    from scipy.special import j1, jn_zeros
    rz = jn_zeros(1, 1)[0] / np.pi
    with warnings.catch_warnings():
        warnings.simplefilter('ignore')
        m = AiryDiskPSF(flux=flux, x_0=x0, y_0=y0, radius=radius)
        got_s = float(m(x0 + dx, y0 + dy))
        got_a = np.asarray(m(np.array([x0 + dx, x0 + 7.0]),
                             np.array([y0 + dy, y0 - 3.0])), float)
    r = math.hypot(dx, dy) / (radius / rz)
    z = 1.0 if r == 0 else (2 * j1(math.pi * r) / (math.pi * r)) ** 2
    want = flux * z / ((4 / math.pi) * (radius / rz) ** 2)
    if not (np.isfinite(got_s) and abs(got_s - want) <= 1e-9 * abs(flux)):
        return (f'AiryDiskPSF({dx},{dy}; radius={radius}, flux={flux}) = '
                f'{got_s!r}, Airy pattern of unit integral * flux = {want!r}')
    if abs(got_a[0] - got_s) > 1e-12 * abs(flux):
        return f'AiryDiskPSF scalar call {got_s!r} != array call {got_a[0]!r}'
    return None


def run_airy(case):
    cnt = dict(n=0)
    P = dict(kind='analytic', sub='airy')
    twin = case.get('twin')
    offs = (-2.0, -0.5, 0.0, 0.25, 1.0)

    def fn(ctx):
        dx = ctx.choice('dx', offs)
        dy = ctx.choice('dy', offs)
        radius = ctx.choice('radius', (0.8, 3.0, 5.5))
        flux = ctx.choice('fluxc', (1.0, -2.0, 71.4))
        x0, y0 = ctx.choice('c', ((0.0, 0.0), (12.0, 7.0), (3.3, -1.7)))
        cnt['n'] += 1
        ctx.stats.obligations += 1
        msg = (_airy_twin if twin else _airy_check)(dx, dy, radius, flux,
                                                    x0, y0)
        if msg is None:
            ctx.stats.unsat += 1
        else:
            ctx.stats.sat += 1
            ctx.find('airy:value', msg, {}, params=dict(
                P, dx=dx, dy=dy, radius=radius, fluxc=flux, x0=x0, y0=y0,
                twin=bool(twin)))

    _, st, f = explore(fn)
    return dict(stats=st, findings=f, samples=[], nontrivial=cnt['n'])


def _airy_twin(dx, dy, radius, flux, x0, y0):
    # perturbed oracle: pretend the central value were 0.9 of the true one
    if dx == 0 and dy == 0:
        return 'twin: central value deliberately mis-specified'
    return _airy_check(dx, dy, radius, flux, x0, y0)


RUN = dict(prf=run_prf, forms=run_prf_forms, psf=run_psf, moffat=run_moffat,
           airy=run_airy, prfrot=run_prf_rot)


def cases(tier):
    cs = []
    N = 3 if tier == 'quick' else 6
    for m in PRFS:
        cs.append(dict(kind='analytic', sub='prf', model=m, N=N,
                       name=f'analytic-prf-{m}-N{N}'))
    cs.append(dict(kind='analytic', sub='prf', model='CircularGaussianPRF',
                   N=1, twin=True, name='analytic-prf-twin'))
    cs.append(dict(kind='analytic', sub='prfrot', N=1 if tier == 'quick'
                   else 2, name='analytic-prf-rotated'))
    cs.append(dict(kind='analytic', sub='prfrot', N=0, twin=True,
                   name='analytic-prf-rotated-twin'))
    cs.append(dict(kind='analytic', sub='forms', N=N,
                   name=f'analytic-prf-forms-N{N}'))
    cs.append(dict(kind='analytic', sub='forms', N=0, twin=True,
                   name='analytic-prf-forms-twin'))
    cs.append(dict(kind='analytic', sub='psf', name='analytic-gaussian-psf'))
    cs.append(dict(kind='analytic', sub='psf', twin=True,
                   name='analytic-gaussian-psf-twin'))
    cs.append(dict(kind='analytic', sub='moffat', name='analytic-moffat'))
    cs.append(dict(kind='analytic', sub='moffat', twin=True,
                   name='analytic-moffat-twin'))
    cs.append(dict(kind='analytic', sub='airy', name='analytic-airy-lattice'))
    cs.append(dict(kind='analytic', sub='airy', twin=True,
                   name='analytic-airy-twin'))
    return cs


# ------------------------------------------------------------------ replay
def concrete(p, w):
    """the same statements evaluated numerically on the real models (scipy
    erf, numpy exp) at the witness parameters; -> message or None."""
    import photutils.psf as psf
    from scipy.special import erf

    def g(k, d):
        v = w.get(k, d)
        try:
            return float(v)
        except Exception:  # noqa
            return d
    x0, y0, flux = g('x0', 0.3), g('y0', -0.2), g('flux', 1.0)
    w0, w1 = g('w0', 1.7), g('w1', 2.3)
    pts = [(x0, y0, flux, w0, w1)]
    # a violated identity is violated for almost every parameter value:
    # also try a benign point when the witness is numerically degenerate
    pts.append((0.3, -0.2, 2.0, 1.7, 2.3))
    sub = p['sub']
    if sub == 'airy':
        if p.get('twin'):
            return None
        return _airy_check(p['dx'], p['dy'], p['radius'], p['fluxc'],
                           p['x0'], p['y0'])
    if sub == 'prfrot':
        N = int(p['N'])
        yy, xx = np.mgrid[-N:N + 1, -N:N + 1]
        K = 1 / (2 * math.sqrt(2 * math.log(2)))
        for (x0, y0, flux, w0, w1) in pts:
            if not (1e-3 < w0 < 1e3 and 1e-3 < w1 < 1e3):
                continue
            for th in (g('th', 35.0) % 360.0, 35.0, 90.0):
                m = psf.GaussianPRF(flux=flux, x_0=x0, y_0=y0, x_fwhm=w0,
                                    y_fwhm=w1, theta=th)
                t = math.radians(th)
                u = (xx - x0) * math.cos(t) + (yy - y0) * math.sin(t)
                v = -(xx - x0) * math.sin(t) + (yy - y0) * math.cos(t)
                sx, sy = w0 * K * math.sqrt(2), w1 * K * math.sqrt(2)
                want = flux / 4 * (erf((u + .5) / sx) - erf((u - .5) / sx)) \
                    * (erf((v + .5) / sy) - erf((v - .5) / sy))
                if not np.allclose(m(xx, yy), want, rtol=1e-9,
                                   atol=1e-13 * abs(flux)):
                    return (f'GaussianPRF(theta={th}) is not the product of '
                            f'erf differences in the rotated frame')
        return None
    for (x0, y0, flux, w0, w1) in pts:
        if not (1e-3 < w0 < 1e3 and 1e-3 < w1 < 1e3 and abs(x0) < 1e3
                and abs(y0) < 1e3 and 1e-6 < abs(flux) < 1e6):
            continue
        if sub in ('prf', 'forms'):
            N = int(p['N'])
            yy, xx = np.mgrid[-N:N + 1, -N:N + 1]
            K = 1 / (2 * math.sqrt(2 * math.log(2)))
            mods = {
                'CircularGaussianPRF': (psf.CircularGaussianPRF(
                    flux=flux, x_0=x0, y_0=y0, fwhm=w0), w0 * K, w0 * K),
                'CircularGaussianSigmaPRF': (psf.CircularGaussianSigmaPRF(
                    flux=flux, x_0=x0, y_0=y0, sigma=w0), w0, w0),
                'IntegratedGaussianPRF': (psf.IntegratedGaussianPRF(
                    flux=flux, x_0=x0, y_0=y0, sigma=w0), w0, w0),
                'GaussianPRF': (psf.GaussianPRF(
                    flux=flux, x_0=x0, y_0=y0, x_fwhm=w0, y_fwhm=w1,
                    theta=0.0), w0 * K, w1 * K)}
            if sub == 'forms':
                a = mods['CircularGaussianSigmaPRF'][0](xx, yy)
                for nm, m in (
                        ('fwhm', psf.CircularGaussianPRF(
                            flux=flux, x_0=x0, y_0=y0, fwhm=w0 / K)),
                        ('elliptical', psf.GaussianPRF(
                            flux=flux, x_0=x0, y_0=y0, x_fwhm=w0 / K,
                            y_fwhm=w0 / K, theta=0.0)),
                        ('integrated', mods['IntegratedGaussianPRF'][0])):
                    if not np.allclose(a, m(xx, yy), rtol=1e-9, atol=1e-13
                                       * abs(flux)):
                        return (f'sigma form and {nm} form differ at '
                                f'x0={x0} y0={y0} sigma={w0}')
                continue
            m, sx, sy = mods[p['model']]
            img = m(xx, yy)
            want = flux / 4 * (
                erf((N + .5 - x0) / (math.sqrt(2) * sx))
                - erf((-N - .5 - x0) / (math.sqrt(2) * sx))) * (
                erf((N + .5 - y0) / (math.sqrt(2) * sy))
                - erf((-N - .5 - y0) / (math.sqrt(2) * sy)))
            if abs(img.sum() - want) > 1e-9 * abs(flux):
                return (f'{p["model"]}: block sum {img.sum()!r} != '
                        f'flux/4*derf*derf {want!r} at x0={x0} y0={y0} '
                        f'w={w0},{w1} flux={flux}')
            m2 = m.copy()
            m2.x_0, m2.y_0 = -x0, -y0
            if not np.allclose(m2(-xx, -yy), img, rtol=1e-9, atol=1e-13
                               * abs(flux)):
                return f'{p["model"]}: not point-symmetric'
            m3 = m.copy()
            m3.flux = 3 * flux
            if not np.allclose(m3(xx, yy), 3 * img, rtol=1e-9):
                return f'{p["model"]}: not linear in flux'
            if (np.sign(flux) * img < 0).any():
                return f'{p["model"]}: negative pixel'
        elif sub == 'psf':
            K = 1 / (2 * math.sqrt(2 * math.log(2)))
            for th in (g('th', 25.0), 25.0):
                th = math.fmod(th, 360.0)
                m = psf.GaussianPSF(flux=flux, x_0=x0, y_0=y0, x_fwhm=w0,
                                    y_fwhm=w1, theta=th)
                xs = np.array([x0 + 0.7 * w0, x0 - 0.3, x0])
                ys = np.array([y0 - 0.4 * w1, y0 + 0.9, y0])
                t = math.radians(th)
                u = (xs - x0) * math.cos(t) + (ys - y0) * math.sin(t)
                v = -(xs - x0) * math.sin(t) + (ys - y0) * math.cos(t)
                sx, sy = w0 * K, w1 * K
                want = flux / (2 * math.pi * sx * sy) * np.exp(
                    -(u * u / (2 * sx * sx) + v * v / (2 * sy * sy)))
                if not np.allclose(m(xs, ys), want, rtol=1e-9):
                    return (f'GaussianPSF != rotated Gaussian of unit '
                            f'integral * flux at theta={th} fwhm={w0},{w1}')
                c = psf.CircularGaussianPSF(flux=flux, x_0=x0, y_0=y0,
                                            fwhm=w0)
                e = psf.GaussianPSF(flux=flux, x_0=x0, y_0=y0, x_fwhm=w0,
                                    y_fwhm=w0, theta=th)
                if not np.allclose(c(xs, ys), e(xs, ys), rtol=1e-9):
                    return f'circular != elliptical(equal widths) at {th}'
                wantc = flux / (2 * math.pi * sx * sx) * np.exp(
                    -((xs - x0) ** 2 + (ys - y0) ** 2) / (2 * sx * sx))
                if not np.allclose(c(xs, ys), wantc, rtol=1e-9):
                    return 'CircularGaussianPSF != unit-integral Gaussian'
        elif sub == 'moffat':
            al, be = w0, max(w1, 1.0 + 1e-3) + 0.5
            m = psf.MoffatPSF(flux=flux, x_0=x0, y_0=y0, alpha=al, beta=be)
            xs = np.array([x0 + 0.7 * al, x0 - 0.3, x0])
            ys = np.array([y0 - 0.4 * al, y0 + 0.9, y0])
            r2 = (xs - x0) ** 2 + (ys - y0) ** 2
            want = flux * (be - 1) / (math.pi * al * al) * (
                1 + r2 / al ** 2) ** (-be)
            if not np.allclose(m(xs, ys), want, rtol=1e-9):
                return f'MoffatPSF != unit-integral Moffat at alpha={al} beta={be}'
    return None
