"""C14 - find_peaks and the star finders' selection logic.

find_peaks runs unmodified on symbolic data with scipy.ndimage.maximum_filter
replaced by its definition on symbolic values; the star-finder catalogs are
built directly with symbolic statistic arrays and their real
apply_all_filters()/select_brightest()/reset_ids() run.
"""
import warnings

import numpy as np
import z3

from ..sym import (Stats, SymArray, SymBool, SymReal, const, explore, nanflag,
                   same, symarray, term)
from ..util import (arr_from_witness, mask_from_witness, snapshot, unchanged,
                    wval)

META = dict(
    functions=['photutils.detection.peakfinder:find_peaks',
               'photutils.detection.core:StarFinderBase._find_stars',
               'photutils.detection.daofinder:_DAOStarFinderCatalog.apply_filters',
               'photutils.detection.daofinder:_DAOStarFinderCatalog.select_brightest',
               'photutils.detection.daofinder:_DAOStarFinderCatalog.__getitem__',
               'photutils.detection.irafstarfinder:_IRAFStarFinderCatalog.apply_filters',
               'photutils.detection.irafstarfinder:_IRAFStarFinderCatalog.select_brightest',
               'photutils.detection.starfinder:_StarFinderCatalog.apply_filters',
               'photutils.detection.starfinder:_StarFinderCatalog.select_brightest'],
    bounds=('find_peaks: symbolic NaN-extended data on 1x3..3x3 (thorough '
            '3x4), symbolic scalar or 2-D threshold (>= 0, and a separate '
            'negative-threshold family), <=1 masked pixel, border widths in '
            '[0,1]^2, box sizes 3/(1,3)/(3,1) and a plus footprint, npeaks '
            'in [1, H*W]; star-finder filters: n<=3 sources, one symbolic '
            'statistic (NaN-extended) at a time with symbolic inclusive '
            'bounds, symbolic peakmax, brightest in [1,3] or None; full '
            'finder pipelines on a crowded 50x56 scene over 2^4 bound '
            'settings x peakmax x brightest x exclude_border x xycoords'),
    assumptions=['floats as NaN-extended reals, no +-inf',
                 'data not constant (find_peaks documents a None result with '
                 'a warning for constant images)',
                 'scipy.ndimage.maximum_filter(mode=constant,cval=0) modelled '
                 'by its definition on symbolic values'],
    stubs=['photutils.detection.peakfinder.maximum_filter -> symbolic '
           'neighbourhood maximum with constant-0 padding',
           'photutils.detection.core.find_peaks -> recorder (in the '
           '_find_stars harness only)', 'numpy facade'],
    outside=['that sharpness/roundness/flux statistics equal their DAOFIND/'
             'IRAF formulas (convolution + marginal fits)', '+-inf'],
    min_obligations=50,
)


def _sym_maximum_filter(data, size=None, footprint=None, mode='constant',
                        cval=0.0, **kw):
    if not (isinstance(data, np.ndarray) and data.dtype == object):
        return _orig_mf(data, size=size, footprint=footprint, mode=mode,
                        cval=cval, **kw)
    assert mode == 'constant'
    if footprint is None:
        sz = (size, size) if np.isscalar(size) else tuple(size)
        footprint = np.ones(sz, bool)
    fp = np.asarray(footprint).astype(bool)
    fh, fw = fp.shape
    # scipy centres the footprint at index size//2
    oy, ox = fh // 2, fw // 2
    H, W = data.shape
    out = np.empty((H, W), dtype=object)
    for y in range(H):
        for x in range(W):
            cur = None
            for j in range(fh):
                for i in range(fw):
                    if not fp[j, i]:
                        continue
                    yy, xx = y + j - oy, x + i - ox
                    v = data[yy, xx] if (0 <= yy < H and 0 <= xx < W) \
                        else cval
                    v = const(v)
                    cur = v if cur is None else SymReal(
                        z3.If(v.e > cur.e, v.e, cur.e), False)
            out[y, x] = cur
    return out.view(SymArray)


def _install():
    from .. import facade
    facade.install()
    import photutils.detection.peakfinder as pf
    global _orig_mf
    if getattr(pf.maximum_filter, '__name__', '') != '_sym_maximum_filter':
        _orig_mf = pf.maximum_filter
        pf.maximum_filter = _sym_maximum_filter
    return pf


FOOT = {
    'box3': dict(box_size=3),
    'box13': dict(box_size=(1, 3)),
    'box31': dict(box_size=(3, 1)),
    'plus': dict(footprint=np.array([[0, 1, 0], [1, 1, 1], [0, 1, 0]])),
}


def _nbhd(name):
    kw = FOOT[name]
    if 'footprint' in kw:
        fp = kw['footprint'].astype(bool)
    else:
        b = kw['box_size']
        fp = np.ones((b, b) if np.isscalar(b) else b, bool)
    oy, ox = fp.shape[0] // 2, fp.shape[1] // 2
    return [(j - oy, i - ox) for j in range(fp.shape[0])
            for i in range(fp.shape[1]) if fp[j, i]]


def _run_peaks(case):
    pf = _install()
    from photutils.utils.exceptions import NoDetectionsWarning
    H, W = case['shape']
    twin = case.get('twin')
    nb = _nbhd(case['foot'])
    cnt = dict(n=0)
    samples = []

    def fn(ctx):
        data = symarray(ctx, 'd', (H, W), nan=case.get('nan', True))
        if case.get('nan', True) and case.get('nanmax') is not None:
            ctx.assume(z3.Sum([z3.If(nanflag(e), 1, 0) for e in data.flat])
                       <= case['nanmax'])
        if case['thr'] == 'scalar':
            thr = ctx.real('t')
            tt = [[thr.e] * W for _ in range(H)]
            if case.get('thrsign', 'nonneg') == 'nonneg':
                ctx.assume(thr.e >= 0)
        else:
            thr = symarray(ctx, 't', (H, W))
            tt = [[thr[y, x].e for x in range(W)] for y in range(H)]
            if case.get('thrsign', 'nonneg') == 'nonneg':
                for row in tt:
                    for e in row:
                        ctx.assume(e >= 0)
        mask = None
        mbits = None
        if case['mask'] != 'none':
            mbits = [z3.Bool(f'm_{y}_{x}') for y in range(H)
                     for x in range(W)]
            for b in mbits:
                ctx.inputs[str(b)] = b
            ctx.assume(z3.Sum([z3.If(b, 1, 0) for b in mbits]) <= 1)
            mask = np.zeros((H, W), bool)
            for i, b in enumerate(mbits):
                mask.flat[i] = bool(SymBool(b))
        bw = None
        if case.get('border'):
            pin = case.get('pin', {})
            by = ctx.int('by', *pin.get('by', (0, min(1, H)))).__index__()
            bx = ctx.int('bx', *pin.get('bx', (0, min(1, W)))).__index__()
            bw = (by, bx)
        npk = ctx.int('npeaks', *case.get('pin', {}).get(
            'npeaks', case.get('npeaks', (H * W, H * W)))).__index__()
        # documented exception: constant data -> None (not part of claim)
        first = data[0, 0]
        notconst = z3.Or([z3.Or(nanflag(e), nanflag(first),
                                term(e) != term(first)) for e in data.flat])
        if H * W > 1:
            ctx.assume(notconst)
        ds = snapshot(data)
        ms = None if mask is None else mask.copy()
        with warnings.catch_warnings(record=True) as wl:
            warnings.simplefilter('always')
            tbl = pf.find_peaks(data, thr, mask=mask, border_width=bw,
                                npeaks=npk, **FOOT[case['foot']])
        warned = any(issubclass(w.category, NoDetectionsWarning) for w in wl)
        # --- specification: eligibility of every pixel as z3 Bool
        elig = {}
        for y in range(H):
            for x in range(W):
                d = data[y, x]
                c = [z3.Not(nanflag(d)), term(d) > tt[y][x]]
                if twin == 'ge':
                    c[1] = term(d) >= tt[y][x]
                if mbits is not None:
                    c.append(z3.Not(mbits[y * W + x]))
                if bw is not None and twin != 'noborder':
                    by, bx = bw
                    if y < by or y >= H - by or x < bx or x >= W - bx:
                        c.append(z3.BoolVal(False))
                for dy, dx in nb:
                    yy, xx = y + dy, x + dx
                    if (dy, dx) != (0, 0) and 0 <= yy < H and 0 <= xx < W:
                        o = data[yy, xx]
                        c.append(z3.Or(nanflag(o), term(d) >= term(o)))
                elig[(y, x)] = z3.And(c)
        params = dict(kind='peaks', shape=[H, W], thr=case['thr'],
                      foot=case['foot'], mask=case['mask'], bw=bw, npeaks=npk)
        cnt['n'] += 1
        if tbl is None:
            r, m = ctx.holds(z3.Not(z3.Or(list(elig.values()))), 'none-iff')
            if r == 'sat':
                ctx.find('peaks:none-but-eligible', 'find_peaks returned None '
                         'although a pixel satisfies the peak definition',
                         ctx.witness(m), params=params)
            if not warned:
                ctx.find('peaks:none-without-warning', 'None without '
                         'NoDetectionsWarning', ctx.witness(), params=params)
            return
        got = [(int(y), int(x)) for y, x in zip(tbl['y_peak'], tbl['x_peak'])]
        vals = list(tbl['peak_value'])
        conds = []
        if list(tbl['id']) != list(range(1, len(got) + 1)) or \
                len(set(got)) != len(got) or len(got) > npk:
            conds.append(z3.BoolVal(False))
        # every returned pixel is eligible and reports its own value
        for p, v in zip(got, vals):
            conds.append(elig[p])
            conds.append(same(v, data[p]))
        # size = min(npeaks, |E|); non-returned eligible pixels are not
        # brighter than any returned one
        nE = z3.Sum([z3.If(e, 1, 0) for e in elig.values()])
        conds.append(z3.If(nE <= npk, nE == len(got), len(got) == npk))
        for p, e in elig.items():
            if p in got:
                continue
            for q in got:
                conds.append(z3.Implies(e, term(data[p]) <= term(data[q])))
        r, m = ctx.holds(z3.And(conds), 'peak-set')
        if r == 'sat':
            ctx.find('peaks:set', f'returned peaks {got} are not exactly the '
                     'eligible pixels (unmasked, non-border, > threshold, = '
                     'neighbourhood maximum; top npeaks)', ctx.witness(m),
                     params=params)
        if not unchanged(data, ds) or (mask is not None and not
                                       np.array_equal(mask, ms)):
            ctx.find('peaks:input-modified', 'input modified', ctx.witness(),
                     params=params)
        if len(samples) < 2:
            samples.append(dict(case=case['name'], peaks=got,
                                witness=ctx.witness()))

    _, st, f = explore(fn)
    return dict(stats=st, findings=f, samples=samples, nontrivial=cnt['n'])


# ---- centroid_func hookup ---------------------------------------------------
def _centroid_check(shape, foot, thr, npeaks):
    from photutils.detection import find_peaks
    H, W = shape
    rng = np.arange(H * W, dtype=float).reshape(H, W)
    data = (rng * 7 % 13) + 0.5 * rng
    err = 50 + rng
    calls = []

    def func(data, mask=None, error=None):
        calls.append((np.array(data), None if error is None
                      else np.array(error)))
        return np.array([0.25, 0.75])

    tbl = find_peaks(data, thr, centroid_func=func, error=err, npeaks=npeaks,
                     **FOOT[foot])
    if tbl is None:
        return None
    nbh = _nbhd(foot)
    hy = max(abs(d[0]) for d in nbh)
    hx = max(abs(d[1]) for d in nbh)
    if len(calls) != len(tbl):
        return f'{len(calls)} centroid calls for {len(tbl)} peaks'
    for k, row in enumerate(tbl):
        y, x = int(row['y_peak']), int(row['x_peak'])
        y0, y1 = max(0, y - hy), min(H, y + hy + 1)
        x0, x1 = max(0, x - hx), min(W, x + hx + 1)
        if not np.array_equal(calls[k][0], data[y0:y1, x0:x1]):
            return f'peak {k}: centroid cutout is not the box around the peak'
        if calls[k][1] is None or not np.array_equal(calls[k][1],
                                                     err[y0:y1, x0:x1]):
            return f'peak {k}: error cutout differs'
        if not (np.isclose(row['x_centroid'], x0 + 0.25)
                and np.isclose(row['y_centroid'], y0 + 0.75)):
            return f'peak {k}: centroid columns are not result + offset'
    return None


def _run_centroid(case):
    cnt = dict(n=0)
    samples = []

    def fn(ctx):
        H = ctx.choice('H', [4, 5])
        W = ctx.choice('W', [4, 6])
        foot = ctx.choice('foot', list(FOOT))
        thr = ctx.choice('thr', [0.0, 6.0, 11.0])
        npk = ctx.choice('npeaks', [1, 2, 50])
        ctx.stats.obligations += 1
        cnt['n'] += 1
        msg = _centroid_check((H, W), foot, thr, npk)
        if msg is None:
            ctx.stats.unsat += 1
        else:
            ctx.stats.sat += 1
            ctx.find('peaks:centroid', msg, ctx.witness(),
                     params=dict(kind='centroid', shape=[H, W], foot=foot,
                                 thr=thr, npeaks=npk))
        if len(samples) < 2:
            samples.append(dict(H=H, W=W, foot=foot, thr=thr, npeaks=npk))

    _, st, f = explore(fn)
    return dict(stats=st, findings=f, samples=samples, nontrivial=cnt['n'])


# ---- _find_stars: footprint and border from kernel / min_separation ---------
def _findstars_check(kshape, kind, minsep, exclude):
    import photutils.detection.core as core
    rec = {}

    def fake_find_peaks(data, threshold, footprint=None, mask=None,
                        border_width=None, **kw):
        rec.update(footprint=np.array(footprint), border=border_width,
                   thr=threshold, mask=mask, extra=kw)
        return None

    class K:  # minimal _StarFinderKernel look-alike
        pass
    ky, kx = kshape
    if kind == 'array':
        kernel = np.ones((ky, kx))
    else:
        kernel = K()
        kernel.mask = np.ones((ky, kx), int)
        kernel.mask[0, 0] = 0
        kernel.yradius = (ky - 1) // 2
        kernel.xradius = (kx - 1) // 2
        kernel.data = np.ones((ky, kx))
    orig = core.find_peaks
    core.find_peaks = fake_find_peaks
    try:
        data = np.zeros((9, 11))
        core.StarFinderBase._find_stars(data, kernel, 1.5,
                                        min_separation=minsep, mask=None,
                                        exclude_border=exclude)
    finally:
        core.find_peaks = orig
    if exclude:
        if rec['border'] is None or tuple(rec['border']) != (
                (ky - 1) // 2, (kx - 1) // 2):
            return (f'border_width {rec["border"]} != (ny,nx)='
                    f'{((ky - 1) // 2, (kx - 1) // 2)} for kernel {kshape}')
    elif rec['border'] is not None:
        return 'border applied without exclude_border'
    fp = rec['footprint'].astype(bool)
    if minsep == 0:
        exp = np.ones((ky, kx), bool) if kind == 'array' else \
            kernel.mask.astype(bool)
        if fp.shape != exp.shape or not np.array_equal(fp, exp):
            return f'footprint {fp.shape} is not the kernel footprint'
    else:
        r = int(np.floor(minsep))
        n = 2 * r + 1
        yy, xx = np.mgrid[-r:r + 1, -r:r + 1]
        idx = np.arange(-minsep, minsep + 1)
        # definition: pixels within min_separation of the centre
        if len(idx) == n:
            exp = (xx ** 2 + yy ** 2) <= minsep ** 2
            if fp.shape != exp.shape or not np.array_equal(fp, exp):
                return f'footprint for min_separation={minsep} is not the ' \
                       f'disc of that radius'
    if rec['thr'] != 1.5:
        return 'threshold not forwarded'
    return None


def _run_findstars(case):
    cnt = dict(n=0)
    samples = []

    def fn(ctx):
        ky = ctx.choice('ky', [1, 3, 5])
        kx = ctx.choice('kx', [3, 5, 7])
        kind = ctx.choice('kind', ['array', 'kernel'])
        minsep = ctx.choice('minsep', [0.0, 1.0, 2.0, 3.0])
        exclude = ctx.flag('exclude_border')
        ctx.stats.obligations += 1
        cnt['n'] += 1
        msg = _findstars_check((ky, kx), kind, minsep, exclude)
        if msg is None:
            ctx.stats.unsat += 1
        else:
            ctx.stats.sat += 1
            ctx.find('findstars:' + msg.split()[0], msg, ctx.witness(),
                     params=dict(kind='findstars', kshape=[ky, kx],
                                 ktype=kind, minsep=minsep, exclude=exclude))
        if len(samples) < 2:
            samples.append(dict(kshape=[ky, kx], kind=kind, minsep=minsep,
                                exclude=exclude))

    _, st, f = explore(fn)
    return dict(stats=st, findings=f, samples=samples, nontrivial=cnt['n'])


# ---- star-finder catalog filters ------------------------------------------------
SPECS = {
    'dao': dict(
        mod='photutils.detection.daofinder', cls='_DAOStarFinderCatalog',
        finite=['xcentroid', 'ycentroid', 'hx', 'hy', 'sharpness',
                'roundness1', 'roundness2', 'peak', 'flux'],
        bounds=[('sharpness', 'sharplo', 'sharphi'),
                ('roundness1', 'roundlo', 'roundhi'),
                ('roundness2', 'roundlo', 'roundhi')],
        peak='peak',
        init=dict(data=None, unit=None, convolved_data=None, kernel=None,
                  threshold=1.0, threshold_eff=1.0, cutout_shape=(3, 3),
                  cutout_center=(1, 1), default_columns=('id',))),
    'iraf': dict(
        mod='photutils.detection.irafstarfinder',
        cls='_IRAFStarFinderCatalog',
        finite=['xcentroid', 'ycentroid', 'sharpness', 'roundness', 'pa',
                'sky', 'peak', 'flux'],
        bounds=[('sharpness', 'sharplo', 'sharphi'),
                ('roundness', 'roundlo', 'roundhi')],
        peak='peak',
        init=dict(data=None, unit=None, convolved_data=None, kernel=None,
                  cutout_shape=(3, 3), default_columns=('id',))),
    'star': dict(
        mod='photutils.detection.starfinder', cls='_StarFinderCatalog',
        finite=['xcentroid', 'ycentroid', 'fwhm', 'roundness', 'pa',
                'max_value', 'flux'],
        bounds=[], peak='max_value',
        init=dict(data=None, unit=None, shape=(3, 3),
                  default_columns=('id',))),
}


def _run_filters(case):
    import importlib
    _install()
    from photutils.utils.exceptions import NoDetectionsWarning
    spec = SPECS[case['finder']]
    cls = getattr(importlib.import_module(spec['mod']), spec['cls'])
    n = case['n']
    symattr = case['attr']       # the statistic that is symbolic
    twin = case.get('twin')
    cnt = dict(n=0)
    samples = []

    def fn(ctx):
        cat = object.__new__(cls)
        for k, v in spec['init'].items():
            setattr(cat, k, v)
        cat.xypos = np.array([[10.0 * i + 1, 5.0 * i + 2] for i in range(n)])
        lo = {}
        for _, l, h in spec['bounds']:
            if l not in lo:
                lo[l] = ctx.real(l)
                lo[h] = ctx.real(h)
                setattr(cat, l, lo[l])
                setattr(cat, h, lo[h])
        usepk = ctx.flag('use_peakmax')
        cat.peakmax = ctx.real('peakmax') if usepk else None
        useb = ctx.flag('use_brightest')
        cat.brightest = ctx.int('brightest', 1, n).__index__() if useb \
            else None
        stats = {}
        for a in spec['finite']:
            if a == symattr or a == 'flux' or (a == spec['peak'] and usepk
                                               and case.get('sympeak')):
                arr = symarray(ctx, a, (n,), nan=(a == symattr))
            else:
                arr = np.array([0.1 * (i + 1) for i in range(n)])
            stats[a] = arr
            cat.__dict__[a] = arr
        if case['finder'] == 'iraf':
            cat.__dict__['cutout_data'] = np.ones((n, 3, 3))
        cat.id = np.arange(n) + 1
        # concrete stats must lie inside the (symbolic) bounds
        for a, l, h in spec['bounds']:
            if a != symattr:
                for v in stats[a]:
                    ctx.assume(z3.And(term(lo[l]) <= term(const(v)),
                                      term(const(v)) <= term(lo[h])))
        if usepk and not (case.get('sympeak') or symattr == spec['peak']):
            for v in stats[spec['peak']]:
                ctx.assume(term(const(v)) <= cat.peakmax.e)
        with warnings.catch_warnings(record=True) as wl:
            warnings.simplefilter('always')
            out = cat.apply_all_filters()
        warned = any(issubclass(w.category, NoDetectionsWarning) for w in wl)
        # --- specification
        keep = []
        for i in range(n):
            c = []
            for a in spec['finite']:
                c.append(z3.Not(nanflag(stats[a][i])))
            for a, l, h in spec['bounds']:
                v = term(stats[a][i])
                if twin == 'strict' and a == symattr:
                    c += [v > term(lo[l]), v < term(lo[h])]
                else:
                    c += [v >= term(lo[l]), v <= term(lo[h])]
            if usepk:
                c.append(term(stats[spec['peak']][i]) <= cat.peakmax.e)
            keep.append(z3.And(c))
        params = dict(kind='filters', finder=case['finder'], n=n,
                      attr=symattr, sympeak=bool(case.get('sympeak')))
        cnt['n'] += 1
        if out is None:
            r, m = ctx.holds(z3.Not(z3.Or(keep)), 'none-iff')
            if r == 'sat':
                ctx.find('filters:none-but-qualifies', 'None returned although '
                         'a source passes every filter', ctx.witness(m),
                         params=params)
            if not warned:
                ctx.find('filters:none-without-warning', 'no warning',
                         ctx.witness(), params=params)
            return
        idx = [int(round((x - 1) / 10)) for x in out.xypos[:, 0]]
        conds = []
        if list(out.id) != list(range(1, len(idx) + 1)) or \
                len(set(idx)) != len(idx):
            conds.append(z3.BoolVal(False))
        for k, i in enumerate(idx):
            conds.append(keep[i])
            for a in spec['finite']:
                conds.append(same(getattr(out, a)[k], stats[a][i]))
        nK = z3.Sum([z3.If(c, 1, 0) for c in keep])
        if cat.brightest is None:
            conds.append(nK == len(idx))
            if idx != sorted(idx):
                conds.append(z3.BoolVal(False))
        else:
            b = cat.brightest
            conds.append(z3.If(nK <= b, nK == len(idx), len(idx) == b))
            fl = stats['flux']
            for i in range(n):
                if i in idx:
                    continue
                for q in idx:
                    conds.append(z3.Implies(keep[i],
                                            term(fl[i]) <= term(fl[q])))
            for k in range(len(idx) - 1):
                conds.append(term(fl[idx[k]]) >= term(fl[idx[k + 1]]))
        r, m = ctx.holds(z3.And(conds), 'filters')
        if r == 'sat':
            ctx.find('filters:selection', f'{case["finder"]} catalog kept '
                     f'sources {idx}: not exactly the finite, in-bounds '
                     f'(inclusive) sources / N brightest / ids 1..N',
                     ctx.witness(m), params=params)
        if len(samples) < 1:
            samples.append(dict(case=case['name'], kept=idx,
                                witness=ctx.witness()))

    _, st, f = explore(fn)
    return dict(stats=st, findings=f, samples=samples, nontrivial=cnt['n'])


# ---- full star-finder pipelines on a concrete crowded scene ------------------
_fs = {}


def _finder_scene():
    from astropy.modeling.models import Gaussian2D
    if 'img' in _fs:
        return _fs['img']
    yy, xx = np.mgrid[:50, :56]
    img = np.zeros((50, 56))
    rng = np.random.default_rng(12)
    srcs = [(8, 9, 90, 1.5, 1.5, 0), (20, 8, 60, 1.3, 2.4, 0.4),
            (33, 10, 150, 1.6, 1.6, 0), (46, 12, 40, 2.6, 1.2, 1.1),
            (12, 26, 70, 1.5, 1.5, 0), (16, 28, 65, 1.5, 1.5, 0),
            (30, 27, 200, 1.4, 1.4, 0), (44, 30, 30, 1.5, 1.5, 0),
            (9, 42, 55, 1.2, 1.2, 0), (27, 43, 80, 2.0, 2.0, 0),
            (47, 44, 120, 1.5, 1.5, 0), (2.0, 30, 100, 1.5, 1.5, 0)]
    for (x, y, a, sx, sy, t) in srcs:
        img += Gaussian2D(a, x, y, sx, sy, theta=t)(xx, yy)
    img += rng.normal(0, 0.8, img.shape)
    img[25, 50] = 400.0     # hot pixel: very sharp
    _fs['img'] = img
    return img


def _pipeline_check(finder, cfg):
    from photutils.detection import DAOStarFinder, IRAFStarFinder, StarFinder
    img = _finder_scene()
    kw = dict(brightest=cfg['brightest'], peakmax=cfg['peakmax'],
              exclude_border=cfg['border'])
    xy = None
    if cfg['xycoords']:
        xy = np.array([(8.0, 9.0), (30.0, 27.0), (40.0, 40.0), (33.2, 9.8)])
    if finder == 'star':
        yy, xx = np.mgrid[-3:4, -3:4]
        kern = np.exp(-(xx ** 2 + yy ** 2) / (2 * 1.5 ** 2))
        if cfg['xycoords']:
            return None
        mk = lambda **k2: StarFinder(6.0, kern, **k2)  # noqa
        base_kw = {}
    else:
        cls = DAOStarFinder if finder == 'dao' else IRAFStarFinder
        bounds = dict(sharplo=cfg['sharplo'], sharphi=cfg['sharphi'],
                      roundlo=cfg['roundlo'], roundhi=cfg['roundhi'])
        mk = lambda **k2: cls(6.0, 3.5, xycoords=xy, **bounds, **k2)  # noqa
        base_kw = {}
    with warnings.catch_warnings():
        warnings.simplefilter('ignore')
        t = mk(**kw)(img)
        full = mk(**dict(kw, brightest=None))(img)
    if t is None:
        if full is not None and len(full) > 0:
            return 'None returned although sources pass every filter'
        return None
    n = len(t)
    if list(t['id']) != list(range(1, n + 1)):
        return f'ids {list(t["id"])}'
    for c in t.colnames:
        if t[c].dtype.kind == 'f' and not np.all(np.isfinite(t[c])):
            return f'non-finite value in column {c}'
    pk = 'max_value' if finder == 'star' else 'peak'
    if cfg['peakmax'] is not None and np.any(t[pk] > cfg['peakmax']):
        return f'{pk} above peakmax'
    if finder != 'star':
        if np.any(t['sharpness'] < cfg['sharplo']) or np.any(
                t['sharpness'] > cfg['sharphi']):
            return 'sharpness outside [sharplo, sharphi]'
        rcols = ['roundness1', 'roundness2'] if finder == 'dao' else \
            ['roundness']
        for rc in rcols:
            if np.any(t[rc] < cfg['roundlo']) or np.any(
                    t[rc] > cfg['roundhi']):
                return f'{rc} outside [roundlo, roundhi]'
    if cfg['brightest'] is not None:
        k = min(cfg['brightest'], len(full))
        if n != k:
            return f'{n} rows for brightest={cfg["brightest"]} of {len(full)}'
        top = np.sort(np.asarray(full['flux']))[::-1][:k]
        if not np.allclose(np.sort(np.asarray(t['flux']))[::-1], top):
            return 'brightest does not keep the N largest fluxes'
    if cfg['border']:
        h = 3 if finder == 'star' else None
        if h is not None:
            x, y = np.asarray(t['xcentroid']), np.asarray(t['ycentroid'])
            # peaks within half the kernel of the border are excluded
            if np.any(np.round(x) < h) or np.any(np.round(x) > 55 - h) or \
                    np.any(np.round(y) < h) or np.any(np.round(y) > 49 - h):
                return 'source inside the excluded border'
    if xy is not None:
        # every returned centroid lies within the kernel of a given position
        for x, y in zip(t['xcentroid'], t['ycentroid']):
            if np.min(np.hypot(xy[:, 0] - x, xy[:, 1] - y)) > 4.0:
                return (f'source at ({x:.1f},{y:.1f}) is not near any of the '
                        f'supplied xycoords')
        if n > len(xy):
            return 'more sources than supplied xycoords'
    return None


def _run_pipeline(case):
    cnt = dict(n=0)
    samples = []
    finder = case['finder']

    def fn(ctx):
        cfg = dict(sharplo=ctx.choice('sharplo', [0.2, 0.5]),
                   sharphi=ctx.choice('sharphi', [1.0, 0.75]),
                   roundlo=ctx.choice('roundlo', [-1.0, -0.2]),
                   roundhi=ctx.choice('roundhi', [1.0, 0.2]),
                   peakmax=ctx.choice('peakmax', [None, 120.0, 50.0]),
                   brightest=ctx.choice('brightest', [None, 1, 3, 50]),
                   border=ctx.flag('exclude_border'),
                   xycoords=ctx.flag('xycoords'))
        if finder == 'star' and (cfg['sharplo'] != 0.2 or cfg['sharphi'] != 1.0
                                 or cfg['roundlo'] != -1.0
                                 or cfg['roundhi'] != 1.0 or cfg['xycoords']):
            return
        ctx.stats.obligations += 1
        cnt['n'] += 1
        try:
            msg = _pipeline_check(finder, cfg)
        except Exception as e:  # noqa
            msg = f'raised {e!r}'
        if msg is None:
            ctx.stats.unsat += 1
        else:
            ctx.stats.sat += 1
            ctx.find(f'pipeline:{finder}:{msg.split()[0]}', f'{cfg}: {msg}',
                     ctx.witness(), params=dict(kind='pipeline',
                                                finder=finder, cfg=cfg))
        if len(samples) < 2:
            samples.append(cfg)

    _, st, f = explore(fn)
    return dict(stats=st, findings=f, samples=samples, nontrivial=cnt['n'])


def run_case(case):
    return dict(pipeline=_run_pipeline, peaks=_run_peaks, centroid=_run_centroid,
                findstars=_run_findstars,
                filters=_run_filters)[case['kind']](case)


def cases(tier, seed):
    cs = []

    def pk(shape, thr, foot, mask, **kw):
        name = f'peaks-{shape[0]}x{shape[1]}-{thr}-{foot}-mask:{mask}' + \
            ''.join(f'-{k}:{v}' for k, v in kw.items())
        # split the solver-chosen border/npeaks ranges over cases (parallel)
        pins = [{}]
        if kw.get('border') and 'twin' not in kw:
            pins = [dict(p, by=(a, a), bx=(b, b)) for p in pins
                    for a in range(0, min(1, shape[0]) + 1)
                    for b in range(0, min(1, shape[1]) + 1)]
        if 'npeaks' in kw and 'twin' not in kw:
            lo, hi = kw['npeaks']
            pins = [dict(p, npeaks=(v, v)) for p in pins
                    for v in range(lo, hi + 1)]
        for pin in pins:
            sfx = ''.join(f'-{k}{v[0]}' for k, v in pin.items())
            cs.append(dict(kind='peaks', name=name + sfx, shape=shape,
                           thr=thr, foot=foot, mask=mask, pin=pin, **kw))

    pk((1, 3), 'scalar', 'box13', 'upto1', border=True, npeaks=(1, 3))
    pk((1, 3), '2d', 'box3', 'none', thrsign='any')
    pk((2, 2), '2d', 'box3', 'upto1', border=True, nanmax=1)
    pk((2, 2), 'scalar', 'plus', 'none', npeaks=(1, 4))
    pk((2, 3), 'scalar', 'box3', 'none', nan=False, npeaks=(1, 2))
    pk((3, 2), 'scalar', 'box31', 'none', nan=False, border=True)
    pk((2, 2), 'scalar', 'box3', 'none', thrsign='any', nanmax=1)
    pk((2, 2), 'scalar', 'box3', 'none', twin='ge')
    pk((1, 3), 'scalar', 'box3', 'none', border=True, twin='noborder')
    cs.append(dict(kind='centroid', name='peaks-centroid-func'))
    cs.append(dict(kind='findstars', name='findstars-footprint-border'))
    for fd in ('dao', 'iraf', 'star'):
        cs.append(dict(kind='pipeline', name=f'pipeline-{fd}', finder=fd))
    for finder in SPECS:
        spec = SPECS[finder]
        attrs = [b[0] for b in spec['bounds']] + [spec['peak'], 'xcentroid']
        for a in attrs:
            cs.append(dict(kind='filters', name=f'filters-{finder}-{a}-n2',
                           finder=finder, n=2, attr=a,
                           sympeak=(a == spec['peak'])))
        cs.append(dict(kind='filters', name=f'filters-{finder}-flux-n3',
                       finder=finder, n=3, attr='flux'))
    cs.append(dict(kind='filters', name='filters-dao-twin-strict',
                   finder='dao', n=2, attr='sharpness', twin='strict'))
    if tier == 'thorough':
        pk((2, 3), 'scalar', 'box3', 'upto1', npeaks=(1, 2))
        pk((2, 3), 'scalar', 'plus', 'none', nanmax=1)
        pk((3, 2), 'scalar', 'box31', 'none', nanmax=1, border=True)
        pk((2, 3), '2d', 'plus', 'none', border=True)
        pk((2, 3), 'scalar', 'box3', 'none', thrsign='any')
        pk((3, 3), 'scalar', 'box3', 'none', nan=False, border=True)
        pk((3, 3), 'scalar', 'plus', 'none', nan=False, npeaks=(2, 2))
        pk((3, 3), '2d', 'box3', 'none', nanmax=1)
        pk((3, 3), 'scalar', 'box3', 'upto1', nanmax=1, npeaks=(1, 3))
        pk((3, 3), 'scalar', 'box13', 'upto1', border=True, nanmax=1)
        pk((3, 3), 'scalar', 'box3', 'none', thrsign='any', nanmax=1)
        for finder in SPECS:
            spec = SPECS[finder]
            for a in [b[0] for b in spec['bounds']] + [spec['peak']]:
                cs.append(dict(kind='filters', name=f'filters-{finder}-{a}-n3',
                               finder=finder, n=3, attr=a,
                               sympeak=(a == spec['peak'])))
    return cs


def replay(f):
    p = f['params']
    w = f['witness']
    if p['kind'] == 'pipeline':
        try:
            msg = _pipeline_check(p['finder'], p['cfg'])
        except Exception as e:  # noqa
            msg = f'raised {e!r}'
        return msg is not None, str(msg)
    if p['kind'] == 'centroid':
        msg = _centroid_check(tuple(p['shape']), p['foot'], p['thr'],
                              p['npeaks'])
        return msg is not None, str(msg)
    if p['kind'] == 'findstars':
        msg = _findstars_check(tuple(p['kshape']), p['ktype'], p['minsep'],
                               p['exclude'])
        return msg is not None, str(msg)
    if p['kind'] == 'peaks':
        from photutils.detection import find_peaks
        H, W = p['shape']
        d = arr_from_witness(w, 'd', (H, W))
        t = wval(w, 't') if p['thr'] == 'scalar' else arr_from_witness(
            w, 't', (H, W))
        mask = None if p['mask'] == 'none' else mask_from_witness(
            w, 'm', (H, W))
        bw = None if p['bw'] is None else tuple(p['bw'])
        d0 = d.copy()
        m0 = None if mask is None else mask.copy()
        with warnings.catch_warnings():
            warnings.simplefilter('ignore')
            tbl = find_peaks(d, t, mask=mask, border_width=bw,
                             npeaks=p['npeaks'], **FOOT[p['foot']])
        if 'input-modified' in f['key']:
            bad = not np.array_equal(d, d0, equal_nan=True) or (
                mask is not None and not np.array_equal(mask, m0))
            return bad, f'input modified: {bad}'

        nb = _nbhd(p['foot'])
        tt = np.broadcast_to(t, (H, W))
        E = []
        for y in range(H):
            for x in range(W):
                if np.isnan(d[y, x]) or not d[y, x] > tt[y, x]:
                    continue
                if mask is not None and mask[y, x]:
                    continue
                if bw is not None and (y < bw[0] or y >= H - bw[0]
                                       or x < bw[1] or x >= W - bw[1]):
                    continue
                ok = True
                for dy, dx in nb:
                    yy, xx = y + dy, x + dx
                    if 0 <= yy < H and 0 <= xx < W and not np.isnan(
                            d[yy, xx]) and d[yy, xx] > d[y, x]:
                        ok = False
                if ok:
                    E.append((y, x))
        got = [] if tbl is None else [(int(a), int(b)) for a, b in zip(
            tbl['y_peak'], tbl['x_peak'])]
        k = min(p['npeaks'], len(E))
        bad = len(got) != k or any(g not in E for g in got)
        if not bad and got:
            lowest = min(d[g] for g in got)
            bad = any(d[e] > lowest for e in E if e not in got)
        if not bad and tbl is not None:
            bad = not np.array_equal(np.asarray(tbl['peak_value'], float),
                                     [d[g] for g in got])
        return bad, (f'data={d.tolist()} thr={np.asarray(t).tolist()} mask='
                     f'{None if mask is None else mask.tolist()} border={bw} '
                     f'npeaks={p["npeaks"]} -> peaks {got}; eligible {E}')
    if p['kind'] == 'filters':
        return _replay_filters(f)
    return False, 'unknown'


def _replay_filters(f):
    import importlib
    p = f['params']
    w = f['witness']
    spec = SPECS[p['finder']]
    cls = getattr(importlib.import_module(spec['mod']), spec['cls'])
    n = p['n']
    cat = object.__new__(cls)
    for k, v in spec['init'].items():
        setattr(cat, k, v)
    cat.xypos = np.array([[10.0 * i + 1, 5.0 * i + 2] for i in range(n)])
    for _, l, h in spec['bounds']:
        setattr(cat, l, float(w[l]))
        setattr(cat, h, float(w[h]))
    cat.peakmax = float(w['peakmax']) if w.get('use_peakmax') else None
    cat.brightest = int(w['brightest']) if w.get('use_brightest') else None
    stats = {}
    for a in spec['finite']:
        if (a + '_0') in w:
            arr = arr_from_witness(w, a, (n,))
        else:
            arr = np.array([0.1 * (i + 1) for i in range(n)])
        stats[a] = arr
        cat.__dict__[a] = arr
    if p['finder'] == 'iraf':
        cat.__dict__['cutout_data'] = np.ones((n, 3, 3))
    cat.id = np.arange(n) + 1
    with warnings.catch_warnings():
        warnings.simplefilter('ignore')
        out = cat.apply_all_filters()
    keep = []
    for i in range(n):
        ok = all(np.isfinite(stats[a][i]) for a in spec['finite'])
        for a, l, h in spec['bounds']:
            ok = ok and getattr(cat, l) <= stats[a][i] <= getattr(cat, h)
        if cat.peakmax is not None:
            ok = ok and stats[spec['peak']][i] <= cat.peakmax
        if ok:
            keep.append(i)
    got = [] if out is None else [int(round((x - 1) / 10))
                                  for x in out.xypos[:, 0]]
    if cat.brightest is None:
        bad = got != keep
    else:
        k = min(cat.brightest, len(keep))
        bad = len(got) != k or any(g not in keep for g in got)
        if not bad and got:
            lowest = min(stats['flux'][g] for g in got)
            bad = any(stats['flux'][i] > lowest for i in keep
                      if i not in got)
    if not bad and out is not None:
        bad = list(out.id) != list(range(1, len(got) + 1))
    return bad, f'stats={ {k: v.tolist() for k, v in stats.items()} } ' \
        f'bounds={ {b: getattr(cat, b) for _, l, h in spec["bounds"] for b in (l, h)} } ' \
        f'peakmax={cat.peakmax} brightest={cat.brightest} kept {got} ' \
        f'expected from {keep}'
