"""C13 - PSF models: index arithmetic of the image-based models and the
analytic models with axiomatised transcendental functions (c13_analytic.py).

Addressable by SMT (DESIGN 3/C13): ImagePSF's oversampled-index transform and
fill region, and GriddedPSFModel's bounding-point lookup, bilinear weights and
model blending, with the cubic splines replaced by recording / uninterpreted
stubs.  The normalisation / non-negativity / consistency clauses of the
Gaussian and Moffat models are decided with erf, exp, cos/sin and pow replaced
by axiomatised stubs (see c13_analytic.py); the Airy disk (Bessel function) is
only compared with the textbook formula on a solver-enumerated lattice.
"""
import copy
import warnings

import numpy as np
import z3

from ..sym import (Stats, SymArray, SymReal, const, explore, nanflag, same,
                   term)

META = dict(
    functions=['photutils.psf.image_models:ImagePSF.evaluate',
               'photutils.psf.image_models:ImagePSF.origin',
               'photutils.psf.gridded_models:GriddedPSFModel._find_bounding_points',
               'photutils.psf.gridded_models:GriddedPSFModel._calc_bilinear_weights',
               'photutils.psf.gridded_models:GriddedPSFModel._calc_model_values',
               'photutils.psf.gridded_models:GriddedPSFModel._calc_interpolator',
               'photutils.psf.gridded_models:GriddedPSFModel.evaluate',
               'photutils.psf.functional_models:GaussianPSF.evaluate',
               'photutils.psf.functional_models:CircularGaussianPSF.evaluate',
               'photutils.psf.functional_models:GaussianPRF.evaluate',
               'photutils.psf.functional_models:CircularGaussianPRF.evaluate',
               'photutils.psf.functional_models:CircularGaussianSigmaPRF.evaluate',
               'photutils.psf.functional_models:MoffatPSF.evaluate',
               'photutils.psf.functional_models:AiryDiskPSF.evaluate'],
    bounds=('ImagePSF: data 5x7 and 6x6, oversampling in {1,2,3,(2,4)}, '
            'origin None or (3,5)/(1.5,2.5), symbolic real x_0, y_0, flux and '
            'fill_value, symbolic integer sample indices in [-2, n+1]; '
            'GriddedPSFModel: grids 2x2, 3x2, 2x3 with irregular spacing and '
            'shuffled grid_xypos, symbolic real (x_0, y_0) anywhere (inside, '
            'on grid lines, outside), splines as uninterpreted values; '
            'evaluation/copy histories of length <=3 on a concrete model; '
            'concrete spline check of ImagePSF at interior sample points; '
            'analytic models: symbolic real x_0, y_0, flux, widths > 0, '
            'rotation angle and evaluation point; PRF pixel blocks '
            '[-N..N]^2 with N = 3 (quick) / 6 (thorough), GaussianPRF at '
            'theta = 0 only; Airy disk on a 5x5 offset lattice x 3 radii x 3 '
            'fluxes x 3 centres'),
    assumptions=['floats as reals: the float round trip at the outermost '
                 'sample (DESIGN section 1) is outside the claim',
                 'transcendental functions are axiomatised: an unsat answer '
                 'holds for the real functions, a sat answer is reported only '
                 'if the concrete replay with scipy/numpy reproduces it',
                 'RectBivariateSpline replaced by a recording stub '
                 '(ImagePSF) / uninterpreted per-ePSF values (gridded)'],
    stubs=['scipy.special.erf, numpy exp / cos / sin / power with symbolic '
           'exponent -> fresh value per distinct argument + instances of '
           'congruence, strict monotonicity, oddness, range, value at 0, '
           'cos^2+sin^2=1 and double-angle formulas (vf/ufmath.py)',
           'ImagePSF.interpolator recording stub',
           'GriddedPSFModel._calc_interpolator -> uninterpreted value',
           'numpy facade'],
    outside=['the limits erf(+-inf) = +-1, the Gaussian and Moffat integral '
             'formulas (trusted mathematics linking the proved algebraic '
             'statements to "integrates to flux")',
             'block sums of GaussianPRF at non-zero rotation (rotated pixel '
             'footprints do not tile the plane; per-pixel factorisation, '
             'sign, symmetry and linearity are decided for every angle); the '
             'Airy disk away from the lattice (Bessel function)',
             'spline values between sample points'],
    min_obligations=40,
)


def _install():
    from .. import facade
    facade.install()


# ---------------------------------------------------------------- ImagePSF
def _run_image(case):
    _install()
    from photutils.psf import ImagePSF
    ny, nx = case['shape']
    ov = case['ov']
    origin = case['origin']
    twin = case.get('twin')
    cnt = dict(n=0)
    samples = []

    def fn(ctx):
        data = np.arange(ny * nx, dtype=float).reshape(ny, nx) + 1
        m = ImagePSF(data, oversampling=ov, origin=origin)
        ovy, ovx = (ov, ov) if np.isscalar(ov) else ov
        # documented: origin is given in (x, y) order; None = image centre
        ox, oy = origin if origin is not None else ((nx - 1) / 2,
                                                    (ny - 1) / 2)
        x0, y0 = ctx.real('x0'), ctx.real('y0')
        flux, fill = ctx.real('flux'), ctx.real('fill')
        k = ctx.int('k', -2, nx + 1)
        l = ctx.int('l', -2, ny + 1)
        rec = []

        def interp(xi, yi, grid=False):
            rec.append((xi, yi))
            out = np.empty(np.shape(xi), dtype=object)
            for idx in np.ndindex(*out.shape):
                out[idx] = SymReal(ctx.fresh('S'))
            return out.view(SymArray)
        m.interpolator = interp
        m.fill_value = fill
        # sample point k in model coordinates
        x = np.empty(1, dtype=object)
        y = np.empty(1, dtype=object)
        x[0] = x0 + (k - const(float(ox))) / ovx
        y[0] = y0 + (l - const(float(oy))) / ovy
        out = m.evaluate(x.view(SymArray), y.view(SymArray), flux, x0, y0)
        cnt['n'] += 1
        params = dict(kind='image', shape=[ny, nx], ov=ov, origin=origin)
        if len(rec) != 1:
            ctx.find('image:interp-calls', f'{len(rec)} interpolator calls',
                     ctx.witness(), params=params)
            return
        xi, yi = rec[0]
        S = None
        conds = [term(xi[0]) == k.e + (1 if twin else 0), term(yi[0]) == l.e]
        inside = z3.And(k.e >= 0, k.e <= nx - 1, l.e >= 0, l.e <= ny - 1)
        r, mdl = ctx.holds(z3.And(conds), 'index')
        if r == 'sat':
            ctx.find('image:index', 'the spline is not queried at the '
                     'oversampled sample index of the evaluation point',
                     ctx.witness(mdl), params=params)
        r, mdl = ctx.holds(z3.Implies(z3.Not(inside), same(out[0], fill)),
                           'fill')
        if r == 'sat':
            ctx.find('image:fill', 'fill_value not returned outside the '
                     'input pixel grid', ctx.witness(mdl), params=params)
        r, mdl = ctx.holds(z3.Implies(inside, z3.Not(same(out[0], fill))
                                      if False else z3.BoolVal(True)),
                           'inside')
        if len(samples) < 1:
            samples.append(dict(case=case['name'], xi=str(xi[0])[:80]))

    _, st, f = explore(fn)
    return dict(stats=st, findings=f, samples=samples, nontrivial=cnt['n'])


def _image_concrete(ov, origin, shape):
    """Real spline: the model reproduces data*flux at interior sample
    points and fill_value outside."""
    from photutils.psf import ImagePSF
    ny, nx = shape
    rng = np.random.default_rng(4)
    data = rng.uniform(1, 2, (ny, nx))
    m = ImagePSF(data, oversampling=ov, origin=origin, flux=2.5, x_0=3.3,
                 y_0=-1.7, fill_value=-9.0)
    ovy, ovx = (ov, ov) if np.isscalar(ov) else ov
    ox, oy = origin if origin is not None else ((nx - 1) / 2, (ny - 1) / 2)
    for l in range(1, ny - 1):
        for k in range(1, nx - 1):
            x = 3.3 + (k - ox) / ovx
            y = -1.7 + (l - oy) / ovy
            v = m(x, y)
            if not np.isclose(v, 2.5 * data[l, k], rtol=1e-9, atol=1e-12):
                return (f'oversampling={ov} origin={origin}: model at sample '
                        f'({k},{l}) = {v}, expected flux*data = '
                        f'{2.5 * data[l, k]}')
    for (k, l) in [(-1, 2), (nx, 2), (2, -1), (2, ny)]:
        v = m(3.3 + (k - ox) / ovx, -1.7 + (l - oy) / ovy)
        if v != -9.0:
            return f'oversampling={ov} origin={origin}: value {v} outside ' \
                   f'the grid at sample ({k},{l}), expected fill_value'
    return None


def _run_image_concrete(case):
    cnt = dict(n=0)

    def fn(ctx):
        ov = ctx.choice('ov', [1, 2, 3, (2, 4), (3, 1)])
        origin = ctx.choice('origin', [None, (3.0, 5.0), (1.5, 2.5),
                                       (0.0, 0.0)])
        shape = ctx.choice('shape', [(7, 9), (8, 8), (9, 6)])
        ctx.stats.obligations += 1
        cnt['n'] += 1
        msg = _image_concrete(ov, origin, shape)
        if msg is None:
            ctx.stats.unsat += 1
        else:
            ctx.stats.sat += 1
            ctx.find('image:reproduce', msg, ctx.witness(),
                     params=dict(kind='imgc', ov=ov, origin=origin,
                                 shape=shape))

    _, st, f = explore(fn)
    return dict(stats=st, findings=f, samples=[dict(case='image-concrete')],
                nontrivial=cnt['n'])


# ---------------------------------------------------------------- gridded
GRIDS = {
    '2x2': ([0.0, 10.0], [0.0, 8.0]),
    '3x2': ([0.0, 4.0, 10.0], [1.0, 7.0]),
    '2x3': ([2.0, 9.0], [0.0, 3.0, 11.0]),
    '3x3': ([0.0, 5.0, 6.0], [0.0, 2.0, 9.0]),
}


def _mk_gridded(name, shuffle=True, variant=0):
    from astropy.nddata import NDData
    from photutils.psf import GriddedPSFModel
    xg, yg = GRIDS[name]
    pos = [(x, y) for y in yg for x in xg]
    if shuffle:
        order = list(range(len(pos)))
        order = order[1::2] + order[0::2]
        pos = [pos[i] for i in order]
    yy, xx = np.mgrid[-4:5, -4:5]
    data = []
    for i, (x, y) in enumerate(pos):
        g = np.exp(-(xx ** 2 + yy ** 2) / (4.0 + 0.3 * x + 0.1 * y))
        if variant:
            # a second model on the same grid with different ePSF data
            g = np.exp(-((xx - 0.5) ** 2 + 2.0 * yy ** 2)
                       / (7.0 + 0.2 * y + 0.05 * x))
        data.append(g / g.sum())
    nd = NDData(np.array(data), meta=dict(grid_xypos=pos, oversampling=1))
    return GriddedPSFModel(nd), pos, xg, yg


def _run_grid(case):
    _install()
    name = case['grid']
    twin = case.get('twin')
    cnt = dict(n=0)
    samples = []

    def fn(ctx):
        m, pos, xg, yg = _mk_gridded(name)
        E = {i: ctx.real(f'E{i}') for i in range(len(pos))}
        # the stored data must be the input ePSFs, re-ordered consistently
        # with grid_xypos
        for i, (px, py) in enumerate(m.grid_xypos):
            j = pos.index((float(px), float(py)))
            if not np.array_equal(m.data[i], _mk_gridded(
                    name, shuffle=False)[0].data[
                    sorted(pos, key=lambda q: (q[1], q[0])).index(
                        (float(px), float(py)))]):
                ctx.find(f'grid:data-order:{name}', 'ePSF data not re-ordered '
                         'consistently with grid_xypos', ctx.witness(),
                         params=dict(kind='grid', grid=name))

        def calc_interp(gidx):
            g = int(gidx)

            def f(xi, yi, grid=False):
                return E[g]
            return f
        m._calc_interpolator = calc_interp
        x0, y0 = ctx.real('x0'), ctx.real('y0')
        try:
            res = m._calc_model_values(x0, y0, 0.0, 0.0)
        except (IndexError, KeyError, ValueError) as e:
            ctx.stats.obligations += 1
            ctx.stats.sat += 1
            ctx.find(f'grid:raised:{name}', f'_calc_model_values raised '
                     f'{e!r}', ctx.witness(),
                     params=dict(kind='grid', grid=name))
            return
        cnt['n'] += 1
        # specification: bilinear blend at the position clamped to the grid
        cx = z3.If(x0.e < xg[0], xg[0], z3.If(x0.e > xg[-1], xg[-1], x0.e))
        cy = z3.If(y0.e < yg[0], yg[0], z3.If(y0.e > yg[-1], yg[-1], y0.e))
        # the model stores the ePSFs in its own (sorted) order
        idx = {(float(px), float(py)): i
               for i, (px, py) in enumerate(m.grid_xypos)}
        expr = None
        for j in range(len(yg) - 1):
            for i in range(len(xg) - 1):
                xa, xb, ya, yb = xg[i], xg[i + 1], yg[j], yg[j + 1]
                n = (xb - xa) * (yb - ya)
                if twin:
                    n = n * 2
                blend = ((xb - cx) * (yb - cy) * E[idx[(xa, ya)]].e
                         + (cx - xa) * (yb - cy) * E[idx[(xb, ya)]].e
                         + (xb - cx) * (cy - ya) * E[idx[(xa, yb)]].e
                         + (cx - xa) * (cy - ya) * E[idx[(xb, yb)]].e) / n
                incell = z3.And(cx >= xa, cx <= xb, cy >= ya, cy <= yb)
                expr = blend if expr is None else z3.If(incell, blend, expr)
        r, mdl = ctx.holds(term(const(res)) == expr, 'blend')
        if r == 'sat':
            ctx.find(f'grid:blend:{name}', 'GriddedPSFModel value is not the '
                     'bilinear blend of the four bounding ePSFs (nearest '
                     'edge values outside the grid)', ctx.witness(mdl),
                     params=dict(kind='grid', grid=name))
        if len(samples) < 1:
            samples.append(dict(grid=name, value=str(res)[:160]))

    _, st, f = explore(fn, timeout_ms=30000)
    return dict(stats=st, findings=f, samples=samples, nontrivial=cnt['n'])


def _blend_expect(m, xg, yg, x0, y0):
    """Bilinear blend of the model's own stored ePSFs (5x5 centre samples)."""
    cx = min(max(x0, xg[0]), xg[-1])
    cy = min(max(y0, yg[0]), yg[-1])
    i = max(0, min(np.searchsorted(xg, cx, side='right') - 1, len(xg) - 2))
    j = max(0, min(np.searchsorted(yg, cy, side='right') - 1, len(yg) - 2))
    xa, xb, ya, yb = xg[i], xg[i + 1], yg[j], yg[j + 1]
    idx = {(float(px), float(py)): k
           for k, (px, py) in enumerate(m.grid_xypos)}
    n = (xb - xa) * (yb - ya)
    c = 4      # centre index of the 9x9 ePSF arrays; sample offsets -2..2
    exp = 0
    for (px, py, w) in [(xa, ya, (xb - cx) * (yb - cy)),
                        (xb, ya, (cx - xa) * (yb - cy)),
                        (xa, yb, (xb - cx) * (cy - ya)),
                        (xb, yb, (cx - xa) * (cy - ya))]:
        exp = exp + m.data[idx[(px, py)]][c - 2:c + 3, c - 2:c + 3] * w / n
    return exp


def _grid_concrete(name, x0, y0):
    """Real splines at concrete positions (replay of symbolic findings)."""
    m, pos, xg, yg = _mk_gridded(name)
    yy, xx = np.mgrid[-2:3, -2:3]
    with warnings.catch_warnings():
        warnings.simplefilter('ignore')
        try:
            got = m.evaluate(xx + x0, yy + y0, 1.0, x0, y0)
        except (IndexError, KeyError, ValueError) as e:
            return f'grid {name} at ({x0},{y0}): evaluate raised {e!r}'
    exp = _blend_expect(m, xg, yg, x0, y0)
    if not np.allclose(got, exp, rtol=1e-8, atol=1e-12):
        return (f'grid {name} at ({x0},{y0}): max deviation from the '
                f'bilinear blend {np.max(np.abs(got - exp)):.3g}')
    return None


HIST_OPS = ['eval-a', 'eval-b', 'eval-c', 'copy', 'deepcopy', 'other-a',
            'other-b']


def _hist_check(name, hist):
    m, pos, xg, yg = _mk_gridded(name)
    P = dict(a=(xg[0], yg[0]), b=((xg[0] + xg[1]) / 2 + 0.3, yg[-1] - 0.2),
             c=(xg[-1] + 5.0, yg[0] - 3.0))
    yy, xx = np.mgrid[-2:3, -2:3]

    def ev(model, key):
        x0, y0 = P[key]
        with warnings.catch_warnings():
            warnings.simplefilter('ignore')
            return model.evaluate(xx + x0, yy + y0, 2.0, x0, y0)
    other = None
    for k, op in enumerate(hist):
        if op == 'copy':
            m = m.copy()
        elif op == 'deepcopy':
            m = copy.deepcopy(m)
        elif op.startswith('other'):
            # a second model instance on the same grid, different ePSF data:
            # each instance must return its own stored ePSFs
            if other is None:
                other, *_ = _mk_gridded(name, variant=1)
            key = op[-1]
            got = ev(other, key)
            exp = 2.0 * _blend_expect(other, xg, yg, *P[key])
            if not np.allclose(got, exp, rtol=1e-8, atol=1e-12):
                return (f'second model (same grid, other data) at {P[key]} '
                        f'after {hist[:k]} is not the blend of its own '
                        f'stored ePSFs')
        else:
            key = op[-1]
            got = ev(m, key)
            fresh, *_ = _mk_gridded(name)
            exp = ev(fresh, key)
            if not np.array_equal(got, exp):
                return (f'evaluation at {P[key]} after {hist[:k]} differs '
                        f'from a fresh model')
            exp2 = 2.0 * _blend_expect(m, xg, yg, *P[key])
            if not np.allclose(got, exp2, rtol=1e-8, atol=1e-12):
                return (f'evaluation at {P[key]} after {hist[:k]} is not the '
                        f'blend of the model\'s own stored ePSFs')
    return None


def _run_hist(case):
    cnt = dict(n=0)

    def fn(ctx):
        name = ctx.choice('grid', ['2x2', '3x2'])
        hist = [ctx.choice(f'op{k}', HIST_OPS) for k in range(case['len'])]
        ctx.stats.obligations += 1
        cnt['n'] += 1
        msg = _hist_check(name, hist)
        if msg is None:
            ctx.stats.unsat += 1
        else:
            ctx.stats.sat += 1
            ctx.find('grid:history', f'{name} {hist}: {msg}', ctx.witness(),
                     params=dict(kind='hist', grid=name, hist=hist))

    _, st, f = explore(fn)
    return dict(stats=st, findings=f, samples=[dict(case='history')],
                nontrivial=cnt['n'])


def _run_gridc(case):
    cnt = dict(n=0)

    def fn(ctx):
        name = ctx.choice('grid', list(GRIDS))
        xg, yg = GRIDS[name]
        xs = sorted(set(xg + [xg[0] - 2.5, xg[-1] + 3.0,
                              (xg[0] + xg[1]) / 2 + 0.4]))
        ys = sorted(set(yg + [yg[0] - 1.5, yg[-1] + 2.0,
                              (yg[-2] + yg[-1]) / 2 - 0.3]))
        x0 = ctx.choice('x', xs)
        y0 = ctx.choice('y', ys)
        ctx.stats.obligations += 1
        cnt['n'] += 1
        msg = _grid_concrete(name, x0, y0)
        if msg is None:
            ctx.stats.unsat += 1
        else:
            ctx.stats.sat += 1
            ctx.find(f'grid:concrete:{name}', msg, ctx.witness(),
                     params=dict(kind='gridc', grid=name, x0=x0, y0=y0))

    _, st, f = explore(fn)
    return dict(stats=st, findings=f, samples=[dict(case='grid-concrete')],
                nontrivial=cnt['n'])


def run_case(case):
    if case['kind'] == 'analytic':
        from . import c13_analytic
        return c13_analytic.RUN[case['sub']](case)
    return dict(image=_run_image, imgc=_run_image_concrete, grid=_run_grid,
                hist=_run_hist, gridc=_run_gridc)[case['kind']](case)


def cases(tier, seed):
    cs = []
    for shape, ov, origin in [((5, 7), 1, None), ((5, 7), 2, (3.0, 5.0)),
                              ((6, 6), 3, None), ((5, 7), (2, 4), (1.5, 2.5)),
                              ((6, 6), (2, 4), None)]:
        cs.append(dict(kind='image', name=f'imagepsf-{shape[0]}x{shape[1]}-'
                       f'ov{ov}-origin{origin}', shape=shape, ov=ov,
                       origin=origin))
    cs.append(dict(kind='image', name='imagepsf-twin', shape=(5, 7), ov=2,
                   origin=None, twin=True))
    cs.append(dict(kind='imgc', name='imagepsf-real-spline'))
    for g in GRIDS:
        cs.append(dict(kind='grid', name=f'gridded-{g}', grid=g))
    cs.append(dict(kind='grid', name='gridded-twin', grid='2x2', twin=True))
    cs.append(dict(kind='gridc', name='gridded-real-splines'))
    cs.append(dict(kind='hist', name='gridded-history',
                   len=2 if tier == 'quick' else 3))
    from . import c13_analytic
    cs.extend(c13_analytic.cases(tier))
    return cs


def replay(f):
    p = f['params']
    w = f.get('witness') or {}
    if p['kind'] == 'analytic':
        from . import c13_analytic
        msg = c13_analytic.concrete(p, w)
        return msg is not None, str(msg)
    if p['kind'] == 'imgc':
        ov = tuple(p['ov']) if isinstance(p['ov'], list) else p['ov']
        org = tuple(p['origin']) if isinstance(p['origin'], list) else \
            p['origin']
        msg = _image_concrete(ov, org, tuple(p['shape']))
        return msg is not None, str(msg)
    if p['kind'] == 'hist':
        msg = _hist_check(p['grid'], p['hist'])
        return msg is not None, str(msg)
    if p['kind'] == 'gridc':
        msg = _grid_concrete(p['grid'], p['x0'], p['y0'])
        return msg is not None, str(msg)
    if p['kind'] == 'grid':
        try:
            msg = _grid_concrete(p['grid'], float(w['x0']), float(w['y0']))
        except Exception as e:  # noqa
            msg = f'raised {e!r}'
        return msg is not None, str(msg)
    if p['kind'] == 'image':
        ov = tuple(p['ov']) if isinstance(p['ov'], list) else p['ov']
        org = tuple(p['origin']) if isinstance(p['origin'], list) else \
            p['origin']
        ny, nx = p['shape']
        msg = _image_concrete(ov, org, (ny + 2, nx + 2))
        return msg is not None, str(msg)
    return False, 'unknown'
