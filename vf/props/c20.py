"""C20 - isophote fitting: list bookkeeping and growth arithmetic (SMT), plus
recovery / reconstruction / polar-transform agreement as concrete oracles over
solver-enumerated configurations.

Harmonic least squares on sampled float data and arctan-based transforms have
no decision procedure here; for those clauses the solver only enumerates the
configuration space (DESIGN 3/C20) and the comparison is concrete with
tolerances.
"""
import math
import warnings

import numpy as np
import z3

from ..sym import Stats, SymReal, const, explore, term

META = dict(
    functions=['photutils.isophote.geometry:EllipseGeometry.update_sma',
               'photutils.isophote.geometry:EllipseGeometry.reset_sma',
               'photutils.isophote.geometry:EllipseGeometry.to_polar',
               'photutils.isophote.geometry:EllipseGeometry._to_polar_scalar',
               'photutils.isophote.geometry:EllipseGeometry._to_polar_vectorized',
               'photutils.isophote.ellipse:Ellipse.fit_image',
               'photutils.isophote.fitter:EllipseFitter._check_conditions',
               'photutils.isophote.model:build_ellipse_model'],
    bounds=('update_sma/reset_sma: all real sma > 0 and step in (0, 1], '
            'linear and geometric growth (symbolic, NRA); to_polar: scalar vs '
            'array form on a 9x9 lattice of points for 11 position angles in '
            '(-pi, pi) incl. negative ones; fit_image: noise-free Gaussian '
            'and Sersic-like galaxies, solver-chosen frame (square, wide '
            'with x0 > ny, tall), eps in {0.2, 0.5}, PA in {0.3, 1.2, 2.4}, '
            'step / linear growth, minsma / maxsma, fix_center / fix_pa / '
            'fix_eps, repeated calls on one Ellipse object'),
    assumptions=['growth arithmetic over exact reals', 'fits are concrete '
                 'float computations: tolerances centre 0.05 px, eps 0.02, '
                 'PA 0.03 rad, intensity 2 percent for isophotes with '
                 '4 <= sma <= 0.5*maxsma and stop_code 0'],
    stubs=[],
    outside=['the harmonic fit / geometry correctors as mathematics',
             'noisy data', 'integration modes other than bilinear'],
    min_obligations=30,
)


# ---------------------------------------------------------------- growth (SYM)
def _run_growth(case):
    from .. import facade
    facade.install()
    from photutils.isophote import EllipseGeometry
    cnt = dict(n=0)
    samples = []

    def fn(ctx):
        linear = ctx.flag('linear')
        sma, step = ctx.real('sma'), ctx.real('step')
        ctx.assume(z3.And(sma.e > 0, step.e > 0, step.e <= 1))
        g = EllipseGeometry(10.0, 10.0, 5.0, 0.2, 0.3, linear_growth=linear)
        g.sma = sma
        up = g.update_sma(step)
        s2, st2 = g.reset_sma(step)
        g2 = EllipseGeometry(10.0, 10.0, 5.0, 0.2, 0.3, linear_growth=linear)
        g2.sma = s2
        back = g2.update_sma(step)      # one outward step from the reset sma
        inward = g2.update_sma(st2)     # next inward sma
        cnt['n'] += 1
        conds = [term(up) > sma.e,                    # outward growth
                 term(back) == sma.e,                 # reset is the inverse
                 term(s2) < sma.e,                    # first inward sma
                 term(inward) < term(s2)]             # keeps shrinking
        if not linear:
            conds += [term(s2) > 0, term(inward) > 0]
        if case.get('twin'):
            conds.append(term(up) == sma.e + step.e)
        r, m = ctx.holds(z3.And(conds), 'growth')
        if r == 'sat':
            ctx.find('growth:update-reset', 'update_sma/reset_sma are not '
                     'mutually inverse strictly monotone growth steps',
                     ctx.witness(m), params=dict(kind='growth'))
        if len(samples) < 2:
            samples.append(dict(linear=linear, up=str(up)[:60]))

    _, st, f = explore(fn)
    return dict(stats=st, findings=f, samples=samples, nontrivial=cnt['n'])



# ---------------------------------------------------------------- growth loops (SYM)
class _FakeSample:
    def __init__(self, geometry):
        self.geometry = geometry
        self.values = None

    def update(self, fixed=None):
        pass


class _FakeIso:
    """Stand-in for Isophote: carries the requested sma and a stop code."""

    def __init__(self, sample, niter, valid, stop_code):
        self.sample = sample
        self.niter = niter
        self.valid = valid
        self.stop_code = stop_code

    @property
    def sma(self):
        return self.sample.geometry.sma

    def fix_geometry(self, other):
        g, o = self.sample.geometry, other.sample.geometry
        g.eps, g.pa, g.x0, g.y0 = o.eps, o.pa, o.x0, o.y0

    def __lt__(self, other):
        return self.sma < other.sma

    def __gt__(self, other):
        return self.sma > other.sma


def _run_loops(case):
    """Ellipse.fit_image's outward / inward growth loops with fit_isophote
    replaced by a stub that appends an isophote at the requested sma with a
    solver-chosen stop code: list bookkeeping for every stop-code sequence."""
    from .. import facade
    facade.install()
    import photutils.isophote.ellipse as pe
    from photutils.isophote import Ellipse, EllipseGeometry
    linear = case['linear']
    nmax = case['nmax']
    cnt = dict(n=0)
    samples = []
    pe.Isophote = _FakeIso

    def fn(ctx):
        sma0 = ctx.real('sma0')
        maxsma = ctx.real('maxsma')
        minsma = ctx.real('minsma')
        if linear:
            step = ctx.real('step')
            ctx.assume(z3.And(step.e >= z3.Q(1, 2), step.e <= 3))
            up = lambda s, k: s + k * step.e          # noqa
        else:
            stepv = ctx.choice('stepv', [0.1, 0.5])
            step = stepv
            from fractions import Fraction
            f = Fraction(stepv) + 1
            up = lambda s, k: s * z3.RealVal(f ** k)  # noqa
        # bounds on the number of outward / inward steps (loop unrolling)
        ctx.assume(z3.And(sma0.e >= 2, sma0.e <= 20, minsma.e >= 0,
                          minsma.e < sma0.e, maxsma.e > sma0.e,
                          up(sma0.e, nmax) >= maxsma.e))
        if linear:
            ctx.assume(sma0.e - nmax * step.e <= z3.If(minsma.e > z3.Q(1, 2),
                                                       minsma.e, z3.Q(1, 2)))
        else:
            ctx.assume(up(sma0.e, -nmax) <= z3.If(minsma.e > z3.Q(1, 2),
                                                  minsma.e, z3.Q(1, 2)))
        img = np.zeros((8, 8))
        geo = EllipseGeometry(4.0, 4.0, 3.0, 0.2, 0.3, linear_growth=linear)
        ell = Ellipse(img, geo)
        codes = []

        def fit_isophote(sma, step=0.1, *a, going_inwards=False,
                         isophote_list=None, noniterate=False, **k):
            g = EllipseGeometry(4.0, 4.0, 3.0, 0.2, 0.3,
                                linear_growth=linear)
            # the real fit_isophote treats sma <= 0 as the central pixel
            if not isinstance(sma, (int, float)) and bool(sma <= 0):
                sma = 0.0
            g.sma = sma
            if len(codes) >= 2 * nmax + 4:
                raise RuntimeError('loop did not terminate within the bound')
            pool = [0, 2, 4, 5, -1, 1] if not going_inwards else [0, 2, 3,
                                                                  5, -1]
            code = ctx.choice(f'code{len(codes)}', pool) if case.get(
                'codes') else 0
            codes.append((going_inwards, code))
            iso = _FakeIso(_FakeSample(g), 1, True, code)
            isophote_list.append(iso)
            return iso
        ell.fit_isophote = fit_isophote
        with warnings.catch_warnings():
            warnings.simplefilter('ignore')
            try:
                res = ell.fit_image(sma0=sma0, minsma=minsma, maxsma=maxsma,
                                    step=step, linear=linear)
            except RuntimeError as e:
                ctx.stats.obligations += 1
                ctx.stats.sat += 1
                ctx.find('loops:nontermination', str(e), ctx.witness(),
                         params=dict(kind='loops', linear=linear))
                return
        cnt['n'] += 1
        smas = [term(const(i.sma)) for i in res._list]
        conds = []
        for a, b in zip(smas, smas[1:]):
            conds.append(a < b)
        if case.get('twin'):
            conds.append(z3.BoolVal(len(smas) < 2))
        # range: nothing beyond one growth step past maxsma; the starting
        # ellipse is part of a non-empty result
        for v in smas:
            conds.append(v < maxsma.e)
            conds.append(v >= 0)
        if smas:
            conds.append(z3.Or([v == sma0.e for v in smas]))
        r, m = ctx.holds(z3.And(conds), 'list')
        if r == 'sat':
            ctx.find('loops:list', f'isophote list (stop codes {codes}) is '
                     'not strictly increasing in sma / leaves the requested '
                     'range / lost the starting ellipse', ctx.witness(m),
                     params=dict(kind='loops', linear=linear,
                                 step=None if linear else step))
        if len(samples) < 2:
            samples.append(dict(linear=linear, n=len(smas), codes=codes))

    try:
        _, st, f = explore(fn)
    finally:
        from photutils.isophote.isophote import Isophote
        pe.Isophote = Isophote
    return dict(stats=st, findings=f, samples=samples, nontrivial=cnt['n'])


# ---------------------------------------------------------------- to_polar
PAS = [-3.0, -2.2, -1.1, -0.3, 0.0, 0.3, 0.9, 1.57, 2.2, 3.0, -1.5707963]


def _polar_check(ipa, x0, y0):
    from photutils.isophote import EllipseGeometry
    pa = PAS[ipa]
    g = EllipseGeometry(x0, y0, 5.0, 0.3, pa)
    xs = np.array([x0 + d for d in (-4.0, -2.5, -1.0, -0.5, 0.0, 0.5, 1.0,
                                    2.5, 4.0)])
    ys = np.array([y0 + d for d in (-4.0, -2.5, -1.0, -0.5, 0.0, 0.5, 1.0,
                                    2.5, 4.0)])
    X, Y = np.meshgrid(xs, ys)
    rv, av = g.to_polar(X, Y)
    for (j, i), _ in np.ndenumerate(X):
        r, a = g.to_polar(float(X[j, i]), float(Y[j, i]))
        if not np.isclose(r, rv[j, i], rtol=1e-12, atol=1e-12):
            return f'pa={pa}: radius scalar {r} vs array {rv[j, i]}'
        d = abs(a - av[j, i])
        if r > 0 and min(d, abs(d - 2 * math.pi)) > 1e-9:
            return (f'pa={pa} point ({X[j, i]},{Y[j, i]}): angle scalar {a} '
                    f'vs array {av[j, i]}')
        if r > 0 and d > 1e-9:
            return (f'pa={pa} point ({X[j, i]},{Y[j, i]}): angle scalar {a} '
                    f'vs array {av[j, i]} (differ by a multiple of 2 pi: '
                    f'not both in the documented [0, 2 pi) range)')
        if r > 0 and not (-1e-12 <= av[j, i] < 2 * math.pi + 1e-9):
            return f'pa={pa}: array angle {av[j, i]} outside [0, 2 pi)'
    return None


def _run_polar(case):
    cnt = dict(n=0)

    def fn(ctx):
        ipa = ctx.choice('pa', len(PAS))
        x0 = ctx.choice('x0', [10.0, 3.25])
        y0 = ctx.choice('y0', [10.0, 7.5])
        ctx.stats.obligations += 1
        cnt['n'] += 1
        msg = _polar_check(ipa, x0, y0)
        if msg is None:
            ctx.stats.unsat += 1
        else:
            ctx.stats.sat += 1
            ctx.find('to_polar:scalar-vs-array', msg, ctx.witness(),
                     params=dict(kind='polar', ipa=ipa, x0=x0, y0=y0))

    _, st, f = explore(fn)
    return dict(stats=st, findings=f, samples=[dict(case='polar')],
                nontrivial=cnt['n'])


# ---------------------------------------------------------------- fit_image
FRAMES = {'square': (80, 80, 40.0, 40.0), 'wide': (60, 130, 95.3, 28.6),
          'tall': (130, 60, 31.2, 90.4)}


def _galaxy(frame, eps, pa, law):
    ny, nx, x0, y0 = FRAMES[frame]
    yy, xx = np.mgrid[:ny, :nx]
    dx, dy = xx - x0, yy - y0
    u = dx * np.cos(pa) + dy * np.sin(pa)
    v = -dx * np.sin(pa) + dy * np.cos(pa)
    r = np.sqrt(u ** 2 + (v / (1 - eps)) ** 2)
    if law == 'gauss':
        img = 1000.0 * np.exp(-0.5 * (r / 9.0) ** 2)
    else:
        img = 1000.0 * np.exp(-(r / 5.0) ** 0.6)
    return img, (x0, y0)


def _fit_check(cfg):
    from photutils.isophote import (Ellipse, EllipseGeometry,
                                    build_ellipse_model)
    img, (x0, y0) = _galaxy(cfg['frame'], cfg['eps'], cfg['pa'], cfg['law'])
    img0 = img.copy()
    geo = EllipseGeometry(x0 + cfg['dx'], y0 - cfg['dx'], 8.0,
                          cfg['eps'] + 0.05, cfg['pa'] - 0.1,
                          linear_growth=cfg['linear'])
    g_eps, g_pa = geo.eps, geo.pa
    g_x0, g_y0 = geo.x0, geo.y0
    ell = Ellipse(img, geo)
    kw = dict(step=cfg['step'], minsma=cfg['minsma'], maxsma=cfg['maxsma'],
              linear=cfg['linear'], maxrit=cfg.get('maxrit'),
              fix_center=cfg['fix'] == 'center',
              fix_pa=cfg['fix'] == 'pa', fix_eps=cfg['fix'] == 'eps')
    with warnings.catch_warnings():
        warnings.simplefilter('ignore')
        isolist = ell.fit_image(**kw)
        if cfg.get('twice'):
            # an earlier call with other settings must not influence this one
            ell2 = Ellipse(img, EllipseGeometry(
                x0 + cfg['dx'], y0 - cfg['dx'], 8.0, cfg['eps'] + 0.05,
                cfg['pa'] - 0.1, linear_growth=cfg['linear']))
            ell2.fit_image(step=0.3, maxsma=12.0, fix_pa=True)
            second = ell2.fit_image(**kw)
            if len(second) != len(isolist) or not np.allclose(
                    second.sma, isolist.sma) or not np.allclose(
                    second.eps, isolist.eps, atol=1e-12) or not np.allclose(
                    second.pa, isolist.pa, atol=1e-12):
                return ('second fit_image call on the same Ellipse differs '
                        'from a fresh object')
    if not np.array_equal(img, img0):
        return 'the image was modified'
    if len(isolist) == 0:
        return 'empty isophote list for a well-posed noise-free galaxy'
    sma = np.asarray(isolist.sma)
    if not np.all(np.diff(sma) > 0):
        return f'sma not strictly increasing: {sma}'
    lo = 0.0 if cfg['minsma'] == 0.0 else min(cfg['minsma'], 0.5)
    top = cfg['maxsma'] + cfg['step'] if cfg['linear'] else \
        cfg['maxsma'] * (1 + cfg['step'])
    if sma[0] < lo - 1e-9 or sma[-1] >= top + 1e-9:
        return (f'sma range [{sma[0]}, {sma[-1]}] outside the requested '
                f'[{cfg["minsma"]}, {cfg["maxsma"]}] (one growth step '
                f'allowed)')
    if cfg['minsma'] == 0.0 and sma[0] != 0.0:
        return 'minsma=0 requested but no central isophote'
    # fixed parameters are honoured exactly
    nz = sma > 0
    # ("exactly" up to float rounding of the angle normalisation: 1e-12)
    def fixed(a, v):
        return np.allclose(np.asarray(a)[nz], v, rtol=0, atol=1e-12)
    if cfg['fix'] == 'center':
        if not (fixed(isolist.x0, g_x0) and fixed(isolist.y0, g_y0)):
            return 'fix_center: centre changed'
    if cfg['fix'] == 'pa' and not fixed(isolist.pa, g_pa):
        return 'fix_pa: position angle changed'
    if cfg['fix'] == 'eps' and not fixed(isolist.eps, g_eps):
        return 'fix_eps: ellipticity changed'
    # recovery on well-sampled isophotes
    good = (sma >= 4) & (sma <= 0.5 * cfg['maxsma']) & (
        np.asarray(isolist.stop_code) == 0)
    if good.sum() < 2:
        return f'fewer than 2 well-fitted isophotes (stop codes ' \
               f'{np.asarray(isolist.stop_code)})'
    if cfg['fix'] != 'center':
        if np.max(np.abs(np.asarray(isolist.x0)[good] - x0)) > 0.05 or \
                np.max(np.abs(np.asarray(isolist.y0)[good] - y0)) > 0.05:
            return (f'centre not recovered: x0 '
                    f'{np.asarray(isolist.x0)[good]} vs {x0}')
    # (with the centre held fixed *off* the true centre the isophotes are not
    # centred ellipses of the fitted family: no recovery claim for eps / pa)
    if cfg['fix'] not in ('eps', 'pa') and not (
            cfg['fix'] == 'center' and cfg['dx'] != 0):
        if np.max(np.abs(np.asarray(isolist.eps)[good] - cfg['eps'])) > 0.02:
            return f'eps not recovered: {np.asarray(isolist.eps)[good]}'
        dpa = np.abs(((np.asarray(isolist.pa)[good] - cfg['pa'])
                      + np.pi / 2) % np.pi - np.pi / 2)
        if np.max(dpa) > 0.03:
            return f'pa not recovered: {np.asarray(isolist.pa)[good]}'
        # intensity along the true ellipse of that sma
        for s, it in zip(sma[good], np.asarray(isolist.intens)[good]):
            exp = 1000.0 * np.exp(-0.5 * (s / 9.0) ** 2) if \
                cfg['law'] == 'gauss' else 1000.0 * np.exp(-(s / 5.0) ** 0.6)
            if abs(it - exp) > 0.02 * exp:
                return f'intensity at sma={s}: {it} vs {exp}'
    if cfg.get('model') and cfg['fix'] == 'none':
        with warnings.catch_warnings():
            warnings.simplefilter('ignore')
            mod = build_ellipse_model(img.shape, isolist)
        ny, nx, _, _ = FRAMES[cfg['frame']]
        yy, xx = np.mgrid[:ny, :nx]
        rr = np.hypot(xx - x0, yy - y0)
        reg = (rr > 3) & (rr < 0.45 * cfg['maxsma'] * (1 - cfg['eps']))
        rel = np.abs(mod[reg] - img[reg]) / img[reg]
        if np.max(rel) > 0.05:
            return f'model image deviates by {np.max(rel):.3f} inside the ' \
                   f'fitted region'
    return None


def _scale_check(cfg):
    """multiplying the image by k > 0 must not change the fitted geometry
    (intensities scale with k)."""
    from photutils.isophote import Ellipse, EllipseGeometry
    img, (x0, y0) = _galaxy(cfg['frame'], cfg['eps'], cfg['pa'], 'gauss')

    def run(k):
        geo = EllipseGeometry(x0 + 0.3, y0 - 0.3, 8.0, cfg['eps'] + 0.05,
                              cfg['pa'] - 0.1, linear_growth=cfg['linear'])
        with warnings.catch_warnings():
            warnings.simplefilter('ignore')
            iso = Ellipse(img * k, geo).fit_image(
                step=1.5 if cfg['linear'] else 0.2, minsma=1.0, maxsma=20.0,
                linear=cfg['linear'])
        return (np.asarray(iso.sma), np.asarray(iso.eps), np.asarray(iso.pa),
                np.asarray(iso.x0), np.asarray(iso.y0),
                np.asarray(iso.intens) / k)
    base = run(1.0)
    got = run(cfg['k'])
    if len(got[0]) != len(base[0]) or not np.allclose(got[0], base[0]):
        return f'k={cfg["k"]}: different sma list'
    for name, a, b, tol in zip(('eps', 'pa', 'x0', 'y0', 'intens'), got[1:],
                               base[1:], (1e-6, 1e-6, 1e-6, 1e-6, None)):
        if tol is None:
            bad = not np.allclose(a, b, rtol=1e-6, equal_nan=True)
        else:
            bad = not np.allclose(a, b, rtol=0, atol=tol, equal_nan=True)
        if cfg.get('twin') and name == 'intens':
            bad = True
        if bad:
            return (f'image * {cfg["k"]}: {name} differs from the fit of the '
                    f'unscaled image by up to '
                    f'{np.nanmax(np.abs(a - b)):.3g}')
    return None


def _run_scale(case):
    cnt = dict(n=0)
    samples = []

    def fn(ctx):
        cfg = dict(frame='square', eps=ctx.choice('eps', [0.2, 0.5]),
                   pa=ctx.choice('pa', [0.3, 2.4]),
                   linear=ctx.flag('linear'),
                   k=ctx.choice('k', [1e-17, 1e-4, 1e6, 1e17]))
        if case.get('twin'):
            cfg['twin'] = True
        ctx.stats.obligations += 1
        cnt['n'] += 1
        msg = _scale_check(cfg)
        if msg is None:
            ctx.stats.unsat += 1
        else:
            ctx.stats.sat += 1
            ctx.find(f'fit:scale:k={cfg["k"]:g}', f'{cfg}: {msg}',
                     ctx.witness(), params=dict(kind='scale', cfg=cfg))
        if len(samples) < 2:
            samples.append(cfg)

    _, st, f = explore(fn)
    return dict(stats=st, findings=f, samples=samples, nontrivial=cnt['n'])


def _run_fit(case):
    cnt = dict(n=0)
    samples = []

    def fn(ctx):
        cfg = dict(frame=case['frame'],
                   eps=ctx.choice('eps', [0.2, 0.5]),
                   pa=ctx.choice('pa', [0.3, 1.2, 2.4]),
                   law=case.get('law', 'gauss'),
                   linear=ctx.flag('linear'),
                   fix=ctx.choice('fix', case.get('fix', ['none'])),
                   minsma=ctx.choice('minsma', case.get('minsma', [1.0])),
                   maxsma=case.get('maxsma', 24.0),
                   dx=ctx.choice('dx', [0.0, 0.4]),
                   twice=case.get('twice', False),
                   model=case.get('model', False),
                   maxrit=ctx.choice('maxrit', case.get('maxrit', [None])))
        cfg['step'] = 1.5 if cfg['linear'] else 0.2
        ctx.stats.obligations += 1
        cnt['n'] += 1
        try:
            msg = _fit_check(cfg)
        except Exception as e:  # noqa
            msg = f'raised {e!r}'
        if msg is None:
            ctx.stats.unsat += 1
        else:
            ctx.stats.sat += 1
            ctx.find(f'fit:{cfg["frame"]}:{msg.split()[0]}', f'{cfg}: {msg}',
                     ctx.witness(), params=dict(kind='fit', cfg=cfg))
        if len(samples) < 2:
            samples.append(cfg)

    _, st, f = explore(fn)
    return dict(stats=st, findings=f, samples=samples, nontrivial=cnt['n'])


def run_case(case):
    return dict(growth=_run_growth, polar=_run_polar, fit=_run_fit,
                loops=_run_loops, scale=_run_scale)[case['kind']](case)


def cases(tier, seed):
    cs = [dict(kind='growth', name='growth-update-reset'),
          dict(kind='growth', name='growth-twin', twin=True),
          dict(kind='polar', name='to_polar-scalar-vs-array')]
    for lin in (True, False):
        cs.append(dict(kind='loops', name=f'loops-linear{lin}-codes',
                       linear=lin, nmax=2, codes=True))
        cs.append(dict(kind='loops', name=f'loops-linear{lin}-long',
                       linear=lin, nmax=4 if tier == 'quick' else 6))
    cs.append(dict(kind='loops', name='loops-twin', linear=True, nmax=2,
                   twin=True))
    for fr in FRAMES:
        cs.append(dict(kind='fit', name=f'fit-{fr}', frame=fr))
    cs.append(dict(kind='fit', name='fit-square-fix', frame='square',
                   fix=['center', 'pa', 'eps']))
    # non-iterative outer isophotes (maxrit < maxsma) before the inward pass
    cs.append(dict(kind='fit', name='fit-square-fix-maxrit', frame='square',
                   fix=['center', 'pa', 'eps'], maxrit=[12.0, 17.0]))
    cs.append(dict(kind='scale', name='fit-image-rescaled'))
    cs.append(dict(kind='scale', name='fit-image-rescaled-twin', twin=True))
    cs.append(dict(kind='fit', name='fit-square-minsma0-model',
                   frame='square', minsma=[0.0, 3.0], model=True))
    cs.append(dict(kind='fit', name='fit-wide-twice', frame='wide',
                   twice=True))
    if tier == 'thorough':
        for fr in FRAMES:
            cs.append(dict(kind='fit', name=f'fit-{fr}-sersic', frame=fr,
                           law='sersic', fix=['none', 'center']))
            cs.append(dict(kind='fit', name=f'fit-{fr}-fix-twice', frame=fr,
                           fix=['center', 'pa', 'eps'], twice=True))
    return cs


def replay(f):
    p = f['params']
    if p['kind'] == 'polar':
        msg = _polar_check(p['ipa'], p['x0'], p['y0'])
        return msg is not None, str(msg)
    if p['kind'] == 'scale':
        if p['cfg'].get('twin'):
            return False, 'twin'
        msg = _scale_check(p['cfg'])
        return msg is not None, str(msg)
    if p['kind'] == 'fit':
        try:
            msg = _fit_check(p['cfg'])
        except Exception as e:  # noqa
            msg = f'raised {e!r}'
        return msg is not None, str(msg)
    if p['kind'] == 'loops':
        # replay the growth parameters with the real fitter on a galaxy
        from photutils.isophote import Ellipse, EllipseGeometry
        w = f['witness']
        img, (x0, y0) = _galaxy('square', 0.2, 0.3, 'gauss')
        sma0 = float(w['sma0'])
        step = float(w['step']) if p['linear'] else float(p['step'])
        with warnings.catch_warnings():
            warnings.simplefilter('ignore')
            iso = Ellipse(img, EllipseGeometry(
                x0, y0, sma0, 0.2, 0.3, linear_growth=p['linear'])).fit_image(
                sma0=sma0, minsma=float(w['minsma']),
                maxsma=float(w['maxsma']), step=step, linear=p['linear'])
        sm = np.asarray(iso.sma)
        bad = len(sm) > 1 and not np.all(np.diff(sm) > 0)
        bad = bad or np.any(sm >= float(w['maxsma'])) or np.any(sm < 0)
        return bool(bad), f'sma0={sma0} step={step} minsma={w["minsma"]} ' \
                          f'maxsma={w["maxsma"]} linear={p["linear"]} -> {sm}'
    from photutils.isophote import EllipseGeometry
    w = f['witness']
    g = EllipseGeometry(10.0, 10.0, float(w['sma']), 0.2, 0.3,
                        linear_growth=bool(w.get('linear')))
    step = float(w['step'])
    up = g.update_sma(step)
    s2, st2 = g.reset_sma(step)
    g.sma = s2
    bad = not (up > float(w['sma']) and np.isclose(g.update_sma(step),
                                                  float(w['sma'])))
    return bad, f'sma={w["sma"]} step={step}: up={up} reset={s2},{st2}'
