"""C06 - deblending only refines segments and is independent of worker
scheduling.

The completion order of the per-source tasks is a symbolic permutation:
ProcessPoolExecutor / as_completed in photutils.segmentation.deblend are
rebound to an in-process stub whose ``as_completed`` asks the solver which
pending future finishes next, so every order is explored (all-SAT); the real
result-reassembly code runs unchanged.
"""
import warnings

import numpy as np
import z3

from ..sym import Stats, explore

META = dict(
    functions=['photutils.segmentation.deblend:deblend_sources',
               'photutils.segmentation.deblend:_deblend_source',
               'photutils.segmentation.deblend:_create_relabel_map',
               'photutils.segmentation.deblend:_update_deblend_label_map',
               'photutils.segmentation.core:SegmentationImage.deblended_labels_map'],
    bounds=('6 concrete scenes (two blends + isolated source, three blends, '
            'label gaps with an unrelated label just above nlabels, touching '
            'parents, single blend, nothing to deblend) x every completion '
            'order of <=4 tasks (24 orders) x label subsets x relabel x '
            'nlevels in {4,32} x contrast in {0, 0.001, 0.3, 1} x mode in '
            '{exponential, linear, sinh} x connectivity in {4,8}; one real '
            'nproc=2 spawn run per tier as a smoke test'),
    assumptions=['schedules are exhaustively enumerated by the solver (finite '
                 'permutations); scenes are concrete (watershed / '
                 'ndimage.label are compiled and depend on the full order '
                 'type of the data)',
                 'the in-process executor stub runs each task when its future '
                 'is asked for the result; tasks are pure functions of their '
                 'arguments'],
    stubs=['photutils.segmentation.deblend.ProcessPoolExecutor / '
           'as_completed -> in-process futures with a solver-chosen '
           'completion order'],
    outside=['blended scenes outside the pool', 'nproc > number of tasks '
             'effects of real process pools (smoke test only)'],
    min_obligations=100,
)

_cache = {}


def _scene(name):
    from astropy.modeling.models import Gaussian2D
    from photutils.segmentation import SegmentationImage, detect_sources
    if name in _cache:
        return _cache[name]
    yy, xx = np.mgrid[:36, :40]

    def g(a, x, y, s):
        return Gaussian2D(a, x, y, s, s)(xx, yy)
    if name == 'two-blends':
        img = (g(50, 8, 8, 1.6) + g(40, 13, 9, 1.6) + g(60, 28, 10, 1.5)
               + g(35, 32, 13, 1.7) + g(30, 10, 28, 1.4))
    elif name == 'three-blends':
        img = (g(50, 7, 7, 1.5) + g(45, 12, 8, 1.5) + g(60, 28, 8, 1.5)
               + g(40, 33, 9, 1.5) + g(55, 9, 27, 1.5) + g(50, 14, 29, 1.6)
               + g(30, 30, 28, 1.3))
    elif name == 'single-blend':
        img = g(50, 15, 15, 1.7) + g(45, 20, 17, 1.7) + g(20, 23, 12, 1.2)
    elif name == 'nothing':
        img = g(50, 9, 9, 1.6) + g(40, 28, 25, 1.8)
    else:
        img = (g(50, 8, 8, 1.6) + g(40, 13, 9, 1.6) + g(60, 28, 10, 1.5)
               + g(35, 32, 13, 1.7) + g(30, 10, 28, 1.4))
    img = img + 0.01
    segm = detect_sources(img, 1.0, npixels=5)
    arr = segm.data.copy()
    if name == 'gaps':
        # non-consecutive labels with an unrelated label right above the
        # number of labels
        labs = list(np.unique(arr[arr > 0]))
        new = {labs[0]: 1, labs[1]: 4, labs[2]: 9}
        out = np.zeros_like(arr)
        for a, b in new.items():
            out[arr == a] = b
        arr = out
    if name == 'touching':
        # two parents sharing a border: split one blend by hand
        labs = list(np.unique(arr[arr > 0]))
        ys, xs = np.nonzero(arr == labs[0])
        cut = (arr == labs[0]) & (np.arange(arr.shape[1])[None, :] >= 11)
        arr[cut] = arr.max() + 1
    _cache[name] = (img, arr)
    return img, arr


class _Future:
    def __init__(self, fn, args, kw):
        self._fn, self._a, self._k = fn, args, kw
        self._done = False
        self._res = None

    def result(self):
        if not self._done:
            self._res = self._fn(*self._a, **self._k)
            self._done = True
        return self._res


class _Executor:
    def __init__(self, *a, **k):
        pass

    def __enter__(self):
        return self

    def __exit__(self, *a):
        return False

    def submit(self, fn, *args, **kw):
        return _Future(fn, args, kw)


def _install(order_chooser):
    import photutils.segmentation.deblend as db

    def as_completed(futs):
        pending = list(futs)
        k = 0
        while pending:
            i = order_chooser(k, len(pending))
            k += 1
            yield pending.pop(i)
    saved = (db.ProcessPoolExecutor, db.as_completed)
    db.ProcessPoolExecutor = _Executor
    db.as_completed = as_completed
    return saved


def _uninstall(saved):
    import photutils.segmentation.deblend as db
    db.ProcessPoolExecutor, db.as_completed = saved


def _run_deblend(scene, params, nproc, chooser=None, labels=None):
    from photutils.segmentation import SegmentationImage, deblend_sources
    img, arr = _scene(scene)
    segm = SegmentationImage(arr.copy())
    # populate caches of the input so that "input unchanged" includes them
    _ = (segm.labels, segm.slices, segm.areas)
    saved = _install(chooser) if chooser else None
    try:
        with warnings.catch_warnings():
            warnings.simplefilter('ignore')
            out = deblend_sources(img, segm, npixels=params['npixels'],
                                  nlevels=params['nlevels'],
                                  contrast=params['contrast'],
                                  mode=params['mode'],
                                  connectivity=params['conn'],
                                  relabel=params['relabel'], labels=labels,
                                  nproc=nproc, progress_bar=False)
    finally:
        if saved:
            _uninstall(saved)
    return segm, out, arr


def _invariants(inp_arr, segm_in, out, params, labels):
    """Refinement invariants; -> None or message."""
    o = np.asarray(out.data)
    a = inp_arr
    if not np.array_equal(np.asarray(segm_in.data), a):
        return 'the input segmentation image was modified'
    if not np.array_equal(o > 0, a > 0):
        return 'the set of non-zero pixels changed'
    inv = out.deblended_labels_inverse_map
    fwd = out.deblended_labels_map
    in_labels = [int(l) for l in np.unique(a[a > 0])]
    sel = in_labels if labels is None else list(labels)
    # children of each parent
    children = {}
    for lab in in_labels:
        kids = sorted(int(v) for v in np.unique(o[a == lab]))
        children[lab] = kids
    all_kids = [k for ks in children.values() for k in ks]
    if len(set(all_kids)) != len(all_kids):
        return ('a label is shared by pixels of different input segments '
                f'(children {children})')
    split = {p: ks for p, ks in children.items() if len(ks) > 1}
    for p, ks in split.items():
        if p not in sel:
            return f'parent {p} was deblended although not selected'
        for k in ks:
            if np.count_nonzero(o == k) < params['npixels']:
                return f'child {k} of {p} has fewer than npixels pixels'
    if params['contrast'] == 1 and split:
        return 'contrast=1 must return the input unchanged'
    if params['relabel']:
        ol = [int(v) for v in np.unique(o[o > 0])]
        if ol != list(range(1, len(ol) + 1)):
            return f'relabel=True but labels are {ol}'
    else:
        for p, ks in children.items():
            if len(ks) == 1 and ks[0] != p:
                return f'untouched segment {p} was relabelled to {ks[0]}'
    # the reported map matches the pixels
    if params['relabel']:
        # parent labels in the map are the *input* labels
        pass
    exp_inv = {p: ks for p, ks in split.items()}
    got_inv = {int(p): sorted(int(v) for v in np.atleast_1d(ks))
               for p, ks in inv.items()}
    if got_inv != exp_inv:
        return (f'deblended_labels_inverse_map {got_inv} does not match the '
                f'pixels {exp_inv}')
    got_fwd = {int(k): int(p) for k, p in fwd.items()}
    exp_fwd = {k: p for p, ks in split.items() for k in ks}
    if got_fwd != exp_fwd:
        return f'deblended_labels_map {got_fwd} does not match the pixels'
    if sorted(int(v) for v in out.deblended_labels) != sorted(exp_fwd):
        return 'deblended_labels does not list exactly the children'
    return None


def _same_result(a, b):
    if not np.array_equal(a.data, b.data) or a.data.dtype != b.data.dtype:
        return 'label arrays differ'
    if list(a.labels) != list(b.labels):
        return 'labels differ'
    ia = {int(k): [int(v) for v in np.atleast_1d(x)]
          for k, x in a.deblended_labels_inverse_map.items()}
    ib = {int(k): [int(v) for v in np.atleast_1d(x)]
          for k, x in b.deblended_labels_inverse_map.items()}
    if ia != ib or list(ia) != list(ib):
        return f'deblend maps differ: {ia} vs {ib}'
    return None


def _run_sched(case):
    cnt = dict(n=0)
    samples = []
    scene = case['scene']

    def fn(ctx):
        params = dict(npixels=5,
                      nlevels=ctx.choice('nlevels', case.get('nlevels',
                                                             [32])),
                      contrast=ctx.choice('contrast', case.get(
                          'contrast', [0.001])),
                      mode=ctx.choice('mode', case.get('mode',
                                                       ['exponential'])),
                      conn=ctx.choice('conn', case.get('conn', [8])),
                      relabel=ctx.flag('relabel'))
        img, arr = _scene(scene)
        in_labels = [int(l) for l in np.unique(arr[arr > 0])]
        labels = None
        if case.get('subsets'):
            bits = [ctx.flag(f'use{l}') for l in in_labels]
            if not any(bits):
                return
            if not all(bits):
                labels = [l for l, b in zip(in_labels, bits) if b]
        order = []

        def chooser(k, npend):
            i = ctx.choice(f'next{k}', npend) if npend > 1 else 0
            order.append(i)
            return i
        pk = dict(kind='sched', scene=scene, params=params, labels=labels)
        try:
            p1 = dict(params, relabel=not params['relabel']) if case.get(
                'twin') else params
            s1, ref, _ = _run_deblend(scene, p1, 1, labels=labels)
            s2, out, a2 = _run_deblend(scene, params, 2, chooser,
                                       labels=labels)
            ctx.stats.obligations += 1
            cnt['n'] += 1
        except Exception as e:  # noqa
            ctx.stats.obligations += 1
            ctx.stats.sat += 1
            ctx.find(f'deblend:raised:{scene}', f'raised {e!r}',
                     ctx.witness(), params=dict(pk, order=order))
            return
        msg = _same_result(ref, out)
        if msg:
            ctx.stats.sat += 1
            ctx.find(f'schedule:{scene}', f'completion order (indices into '
                     f'the pending list) {order}: nproc=2 result differs '
                     f'from nproc=1: {msg}', ctx.witness(),
                     params=dict(pk, order=order))
            return
        msg = _invariants(a2, s2, out, params, labels)
        if msg is None:
            msg = _invariants(a2, s1, ref, params, labels)
        if msg:
            ctx.stats.sat += 1
            ctx.find(f'refinement:{scene}:{msg.split()[0]}', msg,
                     ctx.witness(), params=dict(pk, order=order))
            return
        ctx.stats.unsat += 1
        if len(samples) < 2:
            samples.append(dict(scene=scene, params=params, labels=labels,
                                completion_order=order,
                                nchildren=len(out.deblended_labels)))

    _, st, f = explore(fn)
    return dict(stats=st, findings=f, samples=samples, nontrivial=cnt['n'])


def _run_spawn(case):
    """One real process-pool run (smoke test, not solver evidence); executed
    in a separate interpreter because pool workers cannot spawn children."""
    import subprocess
    import sys
    st = Stats()
    st.paths = 1
    st.obligations = 1
    code = ('import sys; sys.path.insert(0, "/verif");'
            'from vf.props import c06;'
            'p=dict(npixels=5,nlevels=32,contrast=0.001,mode="exponential",'
            'conn=8,relabel=True);'
            '_,a,_=c06._run_deblend("two-blends",p,1);'
            '_,b,_=c06._run_deblend("two-blends",p,2);'
            'print("RESULT", c06._same_result(a,b))')
    r = subprocess.run([sys.executable, '-c', code], capture_output=True,
                       text=True, timeout=600)
    line = [ln for ln in r.stdout.splitlines() if ln.startswith('RESULT')]
    findings = []
    if not line:
        raise RuntimeError('spawn smoke test failed to run: '
                           + r.stderr[-400:])
    msg = line[0][7:].strip()
    if msg != 'None':
        st.sat = 1
        findings.append(dict(key='spawn', detail='real nproc=2 run differs: '
                             + msg, witness={}, params=dict(kind='spawn')))
    else:
        st.unsat = 1
    return dict(stats=st, findings=findings, samples=[dict(case='spawn')],
                nontrivial=1)


def run_case(case):
    return _run_spawn(case) if case['kind'] == 'spawn' else _run_sched(case)


def cases(tier, seed):
    cs = []
    for sc in ('two-blends', 'three-blends', 'gaps', 'touching',
               'single-blend', 'nothing'):
        cs.append(dict(kind='sched', name=f'schedule-{sc}', scene=sc))
    cs.append(dict(kind='sched', name='params-two-blends',
                   scene='two-blends', nlevels=[4, 32],
                   contrast=[0, 0.001, 0.3, 1], mode=['exponential',
                                                      'linear', 'sinh'],
                   conn=[4, 8]) if tier == 'thorough' else
              dict(kind='sched', name='params-single-blend',
                   scene='single-blend', nlevels=[4, 32],
                   contrast=[0, 0.3, 1], mode=['exponential', 'linear'],
                   conn=[4, 8]))
    cs.append(dict(kind='sched', name='subsets-gaps', scene='gaps',
                   subsets=True))
    cs.append(dict(kind='sched', name='subsets-two-blends',
                   scene='two-blends', subsets=True,
                   contrast=[0.001, 1]) if tier == 'thorough' else
              dict(kind='sched', name='subsets-touching', scene='touching',
                   subsets=True))
    cs.append(dict(kind='sched', name='schedule-twin', scene='gaps',
                   twin=True))
    cs.append(dict(kind='spawn', name='real-spawn-smoke'))
    return cs


def replay(f):
    p = f['params']
    if p['kind'] == 'spawn':
        return True, f['detail']
    order = list(p.get('order', []))
    it = iter(order)

    def chooser(k, npend):
        try:
            return next(it)
        except StopIteration:
            return 0
    try:
        s1, ref, _ = _run_deblend(p['scene'], p['params'], 1,
                                  labels=p['labels'])
        s2, out, a2 = _run_deblend(p['scene'], p['params'], 2, chooser,
                                   labels=p['labels'])
    except Exception as e:  # noqa
        return True, f'raised {e!r}'
    msg = _same_result(ref, out) or _invariants(a2, s2, out, p['params'],
                                                p['labels']) or \
        _invariants(a2, s1, ref, p['params'], p['labels'])
    return msg is not None, str(msg)
