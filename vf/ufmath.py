"""Axiomatised transcendental functions for the symbolic executor.

``erf``, ``exp``, ``cos``/``sin`` and ``pow`` with a symbolic exponent have no
decision procedure in z3's real arithmetic.  They are replaced by *stubs that
return a fresh real variable per distinct argument* and add, for every pair of
arguments seen on the path, instances of facts that are true of the real
function (congruence, strict monotonicity, oddness, range, value at 0,
``cos^2 + sin^2 = 1`` and the double-angle formulas).  Everything that is proved
``unsat`` under these constraints therefore holds for the real functions too;
a ``sat`` answer may be an artefact of the weaker axiomatisation and is only
reported after the concrete replay (with scipy's functions) reproduces it.

Congruence ("same argument -> same value") is decided, not assumed: two
arguments are identified when their difference normalises to 0, or when the
solver proves them equal under the path condition.  When two arguments are
fractions with the same (positive) denominator and numerators that differ by a
rational constant, their order is known statically and the monotonicity
instance is added as a plain inequality - this keeps the erf pixel-integration
harnesses linear.
"""
import z3

from .ratnf import is_zero
from .sym import Ctx, OutOfModel, SymReal, _nanz, poly_equal


def _ratconst(e):
    d = z3.simplify(e, som=True, mul_to_power=True, flat=True)
    if z3.is_rational_value(d):
        return d.numerator_as_long() / d.denominator_as_long() \
            if d.denominator_as_long() != 1 else d.numerator_as_long()
    return None


def _split(e):
    if z3.is_app(e) and e.decl().kind() == z3.Z3_OP_DIV:
        return e.arg(0), e.arg(1)
    return e, None


class _Table:
    """one uninterpreted real function R -> R given by axiom instances."""

    def __init__(self, env, name, increasing=True, odd=False, lo=None,
                 hi=None, at0=None, solver_eq=False):
        self.env = env
        self.name = name
        self.increasing = increasing
        self.odd = odd
        self.lo, self.hi, self.at0 = lo, hi, at0
        self.solver_eq = solver_eq
        self.entries = []      # dicts: arg, num, den, var

    def _den_sign(self, den):
        key = den.get_id()
        memo = self.env.den_sign
        if key not in memo:
            ctx = self.env.ctx
            if ctx._check(den <= 0) == z3.unsat:
                memo[key] = 1
            elif ctx._check(den >= 0) == z3.unsat:
                memo[key] = -1
            else:
                memo[key] = 0
            self.env.keep.append(den)
        return memo[key]

    def _relate(self, arg, num, den, ent):
        """-> (lhs, rhs) such that sign(arg - ent.arg) = sign(lhs - rhs) and
        both are as simple as possible (numerators when the denominators are
        the same term of known sign)."""
        if den is not None and ent['den'] is not None and (
                den.eq(ent['den']) or poly_equal(den, ent['den'])):
            sg = self._den_sign(den)
            if sg == 1:
                return num, ent['num'], True
            if sg == -1:
                return ent['num'], num, True
        elif den is None and ent['den'] is None:
            return num, ent['num'], True
        return arg, ent['arg'], False

    def apply(self, u):
        ctx = self.env.ctx
        arg = u.e
        num, den = _split(arg)
        pend = []
        for ent in self.entries:
            a, b, simple = self._relate(arg, num, den, ent)
            c = _ratconst(a - b) if simple else None
            if c is None and (poly_equal(arg, ent['arg']) or is_zero(
                    arg, ent['arg'], self.env.trig_pairs())):
                c = 0
            if c is not None and c == 0:
                return SymReal(ent['var'], u.nan)
            if c is None and self.solver_eq:
                # decided congruence: provably equal under the path condition
                self.env.eq_queries += 1
                if ctx._check(a != b, *ctx._side_for(a - b)) == z3.unsat:
                    return SymReal(ent['var'], u.nan)
            if self.odd:
                sm = (arg + ent['arg']) if a is arg else (num + ent['num'])
                cs = _ratconst(sm)
                if cs is not None and cs == 0:
                    return SymReal(-ent['var'], u.nan)
            pend.append((ent, a, b, c))
        c0 = _ratconst(arg)
        if c0 is not None and c0 == 0 and self.at0 is not None:
            return SymReal(z3.RealVal(self.at0), u.nan)
        v = ctx.fresh(self.name)
        s = ctx.solver
        if self.lo is not None:
            s.add(v > self.lo)
        if self.hi is not None:
            s.add(v < self.hi)
        if self.at0 is not None:
            z = num if (den is not None and self._den_sign(den) != 0) \
                else arg
            sgn = self._den_sign(den) if den is not None else 1
            if c0 is not None:
                if c0 == 0:
                    s.add(v == self.at0)
                elif self.increasing:
                    s.add(v > self.at0 if c0 > 0 else v < self.at0)
            else:
                s.add(z3.Implies(z == 0, v == self.at0))
                if self.increasing:
                    pos, neg = (z > 0, z < 0) if sgn >= 0 else (z < 0, z > 0)
                    s.add(z3.Implies(pos, v > self.at0))
                    s.add(z3.Implies(neg, v < self.at0))
        for ent, a, b, c in pend:
            w = ent['var']
            if c is not None:
                if self.increasing:
                    s.add(w < v if c > 0 else v < w)
            else:
                s.add(z3.Implies(a == b, v == w))      # congruence
                if self.increasing:
                    s.add(z3.Implies(b < a, w < v))
                    s.add(z3.Implies(a < b, v < w))
            if self.odd:
                # arg == -ent.arg  <=>  a' + b' == 0 on the same scale
                if a is arg:
                    sm = arg + ent['arg']
                else:
                    sm = num + ent['num']
                cs = _ratconst(sm)
                if cs is not None:
                    if cs == 0:
                        s.add(v == -w)
                else:
                    s.add(z3.Implies(sm == 0, v == -w))
        self.entries.append(dict(arg=arg, num=num, den=den, var=v))
        self.env.keep.append(arg)
        return SymReal(v, u.nan)


class UFEnv:
    """attach with ``ctx.uf = UFEnv(ctx)`` at the start of a harness."""

    def __init__(self, ctx):
        self.ctx = ctx
        self.keep = []
        self.den_sign = {}
        self.eq_queries = 0
        self.erf_t = _Table(self, 'erf', odd=True, lo=-1, hi=1, at0=0)
        self.exp_t = _Table(self, 'exp', lo=0, at0=1)
        self.trig = []         # (arg, cos var, sin var)
        self.pows = []         # (base, exponent, var)

    def trig_pairs(self):
        return [(str(c), str(s)) for a, c, s in self.trig
                if z3.is_const(c) and z3.is_const(s)]

    # -- erf / exp -----------------------------------------------------
    def erf(self, u):
        return self.erf_t.apply(u)

    def exp(self, u):
        return self.exp_t.apply(u)

    # -- cos / sin -----------------------------------------------------
    def _trig(self, u):
        arg = u.e
        c0 = _ratconst(arg)
        if c0 is not None and c0 == 0:
            return z3.RealVal(1), z3.RealVal(0)
        for a, c, s in self.trig:
            if poly_equal(arg, a):
                return c, s
        for a, c, s in list(self.trig):
            if poly_equal(arg, 2 * a):
                c2, s2 = c * c - s * s, 2 * s * c
                self.trig.append((arg, c2, s2))
                return c2, s2
        ctx = self.ctx
        c, s = ctx.fresh('cos'), ctx.fresh('sin')
        ctx.solver.add(c * c + s * s == 1)
        self.trig.append((arg, c, s))
        self.keep.append(arg)
        return c, s

    def cos(self, u):
        return SymReal(self._trig(u)[0], u.nan)

    def sin(self, u):
        return SymReal(self._trig(u)[1], u.nan)

    # -- pow with a symbolic exponent ------------------------------------
    def pow(self, b, x):
        be, xe = b.e, x.e
        nan = z3.simplify(z3.Or(_nanz(b.nan), _nanz(x.nan)))
        nan = False if z3.is_false(nan) else nan
        for pb, px, v in self.pows:
            if poly_equal(be, pb) and poly_equal(xe, px):
                return SymReal(v, nan)
        cb = _ratconst(be)
        if cb is not None and cb == 1:
            return SymReal(z3.RealVal(1), nan)
        ctx = self.ctx
        v = ctx.fresh('pow')
        s = ctx.solver
        s.add(z3.Implies(be > 0, v > 0))
        s.add(z3.Implies(be == 1, v == 1))
        s.add(z3.Implies(xe == 0, v == 1))
        # monotone in the base for a fixed exponent
        for pb, px, w in self.pows:
            if poly_equal(xe, px):
                s.add(z3.Implies(z3.And(pb > 0, be > 0, xe < 0, pb < be),
                                 v < w))
                s.add(z3.Implies(z3.And(pb > 0, be > 0, xe < 0, be < pb),
                                 w < v))
                s.add(z3.Implies(pb == be, v == w))
        self.pows.append((be, xe, v))
        self.keep.extend([be, xe])
        return SymReal(v, nan)


def env():
    ctx = Ctx.cur
    e = getattr(ctx, 'uf', None) if ctx is not None else None
    if e is None:
        raise OutOfModel('transcendental function of a symbolic value')
    return e


def erf(x):
    """drop-in for scipy.special.erf on symbolic scalars / object arrays."""
    import numpy as np
    if isinstance(x, SymReal):
        return env().erf(x)
    a = np.asarray(x)
    if a.dtype != object:
        from scipy.special import erf as _erf
        return _erf(x)
    out = np.empty(a.shape, dtype=object)
    for idx in np.ndindex(*a.shape):
        v = a[idx]
        out[idx] = env().erf(v) if isinstance(v, SymReal) else \
            env().erf(SymReal(z3.RealVal(_frac(v))))
    return out if out.ndim else out[()]


def _frac(v):
    from fractions import Fraction
    return Fraction(float(v))
