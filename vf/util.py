"""Shared helpers for property harnesses: reference oracles (written from the
property text), model enumeration, witness -> float arrays."""
import numpy as np
import z3

from .sym import Ctx, _pyval


def enum_valuations(ctx, bools, limit=64):
    """All distinct valuations of the z3 Bool terms ``bools`` admitted by the
    path condition (all-SAT on the projection).  Yields (values, model).
    Returns via StopIteration; sets ctx.notes['enum_complete']."""
    s = ctx.solver
    s.push()
    n = 0
    complete = False
    try:
        while n < limit:
            r = ctx._check()
            if r == z3.unsat:
                complete = True
                break
            if r != z3.sat:
                break
            m = s.model()
            vals = [z3.is_true(m.eval(b, model_completion=True))
                    for b in bools]
            yield vals, m
            n += 1
            if not bools:
                complete = True
                break
            s.add(z3.Or([b != z3.BoolVal(v) for b, v in zip(bools, vals)]))
    finally:
        s.pop()
        ctx.notes['enum_complete'] = complete


def ref_label(S, connectivity):
    """Reference connected-component labelling: raster-order BFS; labels
    1..N by first pixel.  Returns (labels array, list of pixel lists)."""
    S = np.asarray(S, bool)
    H, W = S.shape
    lab = np.zeros((H, W), int)
    comps = []
    if connectivity == 4:
        nb = [(-1, 0), (1, 0), (0, -1), (0, 1)]
    else:
        nb = [(dy, dx) for dy in (-1, 0, 1) for dx in (-1, 0, 1)
              if (dy, dx) != (0, 0)]
    for y in range(H):
        for x in range(W):
            if S[y, x] and lab[y, x] == 0:
                comps.append([])
                k = len(comps)
                lab[y, x] = k
                q = [(y, x)]
                while q:
                    cy, cx = q.pop()
                    comps[-1].append((cy, cx))
                    for dy, dx in nb:
                        yy, xx = cy + dy, cx + dx
                        if 0 <= yy < H and 0 <= xx < W and S[yy, xx] \
                                and lab[yy, xx] == 0:
                            lab[yy, xx] = k
                            q.append((yy, xx))
    return lab, comps


def ref_detect(S, npixels, connectivity):
    """Expected detect_sources output array for above-threshold set S, or
    None if no component qualifies."""
    lab, comps = ref_label(S, connectivity)
    out = np.zeros(lab.shape, int)
    k = 0
    for c in comps:
        if len(c) >= npixels:
            k += 1
            for (y, x) in c:
                out[y, x] = k
    return out if k else None


def arr_from_witness(w, name, shape, default=0.0):
    a = np.full(shape, default, dtype=float)
    for idx in np.ndindex(*shape):
        k = name + '_' + '_'.join(map(str, idx))
        if k in w:
            v = w[k]
            a[idx] = float('nan') if v == 'nan' else float(v)
    return a


def mask_from_witness(w, name, shape):
    a = np.zeros(shape, bool)
    for idx in np.ndindex(*shape):
        k = name + '_' + '_'.join(map(str, idx))
        a[idx] = bool(w.get(k, False))
    return a


def wval(w, k, default=None):
    v = w.get(k, default)
    if v == 'nan':
        return float('nan')
    return v


def snapshot(a):
    """identity snapshot of an object array / plain array (frame check)."""
    a = np.asarray(a)
    if a.dtype == object:
        return [id(e) for e in a.flat], a.shape, a.dtype
    return a.copy(), a.shape, a.dtype


def unchanged(a, snap):
    a = np.asarray(a)
    s, shape, dtype = snap
    if a.shape != shape or a.dtype != dtype:
        return False
    if a.dtype == object:
        return [id(e) for e in a.flat] == s
    return bool(np.array_equal(a, s, equal_nan=True)) if a.dtype.kind == 'f' \
        else bool(np.array_equal(a, s))
