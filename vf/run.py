"""Check runner: ``python -m vf.run <ID> --tier quick|thorough`` or
``python -m vf.run <ID> --replay <file>``.

A property module ``vf.props.<id>`` provides

* ``META``: dict(functions=[...], bounds=str, assumptions=[...], stubs=[...],
  outside=[...], min_obligations=int)
* ``cases(tier, seed)`` -> list of picklable case dicts (each has 'name';
  'twin': True marks a sensitivity twin that MUST produce a finding)
* ``run_case(case)`` -> dict(stats=Stats, findings=[...], samples=[...],
  nontrivial=int)
* ``replay(finding)`` -> (reproduced: bool, detail: str); executed in a fresh
  interpreter with NO facade installed, on the real library.
"""
import argparse
import hashlib
import importlib
import inspect
import json
import multiprocessing as mp
import os
import subprocess
import sys
import time
import traceback
import warnings

VERIF = os.path.dirname(os.path.dirname(os.path.abspath(__file__)))
REPO = os.environ.get('VERIF_REPO', '/repo')
EXIT_OK, EXIT_VIOLATION, EXIT_HARNESS = 0, 1, 3


def load_known():
    known, fixed = {}, []
    p = os.path.join(VERIF, 'known_findings.txt')
    if os.path.exists(p):
        for ln in open(p):
            ln = ln.strip()
            if ln.startswith('known:'):
                parts = ln.split()
                d = dict(x.split('=', 1) for x in parts[1:3])
                known[(d['property'], d['key'])] = ln
            elif ln.startswith('fixed:'):
                fixed.append(ln)
    return known, fixed


def src_hash(qualname):
    """module:qualname -> short hash of the current source in /repo."""
    try:
        modname, _, attr = qualname.partition(':')
        if modname.endswith('.pyx'):
            txt = open(os.path.join(REPO, modname)).read()
        else:
            mod = importlib.import_module(modname)
            obj = mod
            for a in attr.split('.') if attr else []:
                obj = getattr(obj, a)
            if isinstance(obj, property):
                obj = obj.fget
            obj = getattr(obj, 'fget', obj)
            obj = getattr(obj, '__wrapped__', obj)
            txt = inspect.getsource(obj)
        return hashlib.sha1(txt.encode()).hexdigest()[:10]
    except Exception as e:  # noqa
        return 'unavailable:' + type(e).__name__


def _worker(args):
    modname, case = args
    warnings.simplefilter('ignore')
    t = time.time()
    try:
        mod = importlib.import_module(modname)
        out = mod.run_case(case)
        out['case'] = case.get('name')
        out['twin'] = bool(case.get('twin'))
        out['wall'] = time.time() - t
        out['stats'] = out['stats'].as_dict()
        return out
    except BaseException as e:  # noqa
        return dict(case=case.get('name'), twin=bool(case.get('twin')),
                    error=''.join(traceback.format_exception(e))[-3000:],
                    wall=time.time() - t)


def jsonable(o):
    import numpy as np
    if isinstance(o, dict):
        return {str(k): jsonable(v) for k, v in o.items()}
    if isinstance(o, (list, tuple, set)):
        return [jsonable(v) for v in o]
    if isinstance(o, np.ndarray):
        return jsonable(o.tolist())
    if isinstance(o, (np.integer,)):
        return int(o)
    if isinstance(o, (np.floating, float)):
        f = float(o)
        if f != f:
            return 'nan'
        if f in (float('inf'), float('-inf')):
            return 'inf' if f > 0 else '-inf'
        return f
    if isinstance(o, (np.bool_, bool)):
        return bool(o)
    if o is None or isinstance(o, (int, str)):
        return o
    return repr(o)


def main(argv=None):
    ap = argparse.ArgumentParser()
    ap.add_argument('pid')
    ap.add_argument('--tier', default=os.environ.get('VERIF_TIER', 'quick'))
    ap.add_argument('--replay')
    ap.add_argument('--jobs', type=int, default=int(os.environ.get(
        'VERIF_JOBS', '16')))
    ap.add_argument('--only')
    args = ap.parse_args(argv)
    pid = args.pid.upper()
    seed = int(os.environ.get('VERIF_SEED', '0') or 0)
    os.environ.setdefault('PHOTUTILS_VERIF', '1')
    warnings.simplefilter('ignore')
    modname = f'vf.props.{pid.lower()}'

    if args.replay:
        mod = importlib.import_module(modname)
        f = json.load(open(args.replay))
        ok, detail = mod.replay(f)
        print(('REPRODUCED ' if ok else 'NOT-REPRODUCED ') + str(detail))
        if ok:
            print(f'VIOLATION property={pid} replay={args.replay}')
        return EXIT_VIOLATION if ok else EXIT_OK

    t0 = time.time()
    mod = importlib.import_module(modname)
    meta = mod.META
    tier = 'thorough' if args.tier.startswith('t') else 'quick'
    os.environ.setdefault('VERIF_CASE_SECONDS',
                          '2400' if tier == 'thorough' else '150')
    cases = mod.cases(tier, seed)
    if args.only:
        cases = [c for c in cases if args.only in c['name']]
    jobs = max(1, min(args.jobs, len(cases)))
    results = []
    if jobs == 1:
        for c in cases:
            results.append(_worker((modname, c)))
    else:
        ctx = mp.get_context('fork')
        with ctx.Pool(jobs, maxtasksperchild=4) as pool:
            for r in pool.imap_unordered(_worker, [(modname, c) for c in cases],
                                         chunksize=1):
                results.append(r)
    # a sensitivity twin whose refuting query timed out under load (all
    # cores busy) is re-run once alone before it is reported as undetected
    byname = {c.get('name'): c for c in cases}
    for i, r in enumerate(results):
        if r.get('twin') and 'error' not in r and not r.get('findings'):
            results[i] = _worker((modname, byname[r['case']]))
    results.sort(key=lambda r: str(r.get('case')))

    from .sym import Stats
    tot = Stats()
    twin_tot = Stats()
    findings, twin_findings, samples, errors = [], {}, [], []
    nontrivial = 0
    twins_run = 0
    per_case = []
    for r in results:
        if 'error' in r:
            errors.append((r['case'], r['error']))
            continue
        st = Stats()
        st.__dict__.update(r['stats'])
        if r['twin']:
            twin_tot.add(st)
        else:
            tot.add(st)
        per_case.append(dict(case=r['case'], paths=st.paths,
                             obligations=st.obligations, unsat=st.unsat,
                             sat=st.sat, unknown=st.unknown,
                             wall_s=round(r['wall'], 2), twin=r['twin']))
        if r['twin']:
            twins_run += 1
            twin_findings[r['case']] = len(r['findings'])
            continue
        nontrivial += r.get('nontrivial', 0)
        for f in r['findings']:
            f['case'] = r['case']
            findings.append(f)
        samples.extend(r.get('samples', [])[:2])

    known, fixed = load_known()
    status = EXIT_OK
    lines = []
    # ---- findings: dedupe by key, replay on the real library ---------------
    bykey = {}
    for f in findings:
        bykey.setdefault(f['key'], []).append(f)
    violations = 0
    known_hit = []
    spurious = []
    replays = []
    os.makedirs(os.path.join(VERIF, 'replays'), exist_ok=True)
    for key, fl in sorted(bykey.items()):
        reproduced = None
        for f in fl[:3]:
            h = hashlib.sha1(json.dumps(jsonable(f), sort_keys=True).encode()
                             ).hexdigest()[:10]
            path = os.path.join(VERIF, 'replays', f'{pid}-{h}.json')
            json.dump(jsonable(f), open(path, 'w'), indent=1)
            p = subprocess.run([sys.executable, '-m', 'vf.run', pid,
                                '--replay', path], cwd=VERIF,
                               capture_output=True, text=True, timeout=600)
            out = p.stdout.strip().splitlines()
            rep = any(l.startswith('REPRODUCED') for l in out)
            replays.append(dict(key=key, path=path, reproduced=rep,
                                detail=(out[0] if out else p.stderr[-300:])))
            if rep:
                reproduced = (f, path, out[0])
                break
            os.remove(path)
        if reproduced is None:
            spurious.append(key)
            lines.append(f'SPURIOUS property={pid} key={key} (model '
                         f'counterexample did not reproduce on the real code: '
                         f'{replays[-1]["detail"][:200]})')
            status = max(status, EXIT_HARNESS)
            continue
        f, path, det = reproduced
        if (pid, key) in known:
            known_hit.append(key)
            os.remove(path)
            lines.append(f'KNOWN-FINDING: property={pid} key={key} '
                         f'{f["detail"]}')
        else:
            violations += 1
            lines.append(f'VIOLATION property={pid} replay={path}')
            lines.append(f'  key={key} {f["detail"]} :: {det[:300]}')
            status = EXIT_VIOLATION if status != EXIT_HARNESS else status
    # ---- vacuity / twins ----------------------------------------------------
    for c, n in twin_findings.items():
        if n == 0:
            lines.append(f'HARNESS-ERROR twin {c} was not detected '
                         f'(check insensitive)')
            status = max(status, EXIT_HARNESS) if status != EXIT_VIOLATION \
                else status
    if errors:
        for c, e in errors:
            lines.append(f'HARNESS-ERROR case {c}:\n{e}')
        if status != EXIT_VIOLATION:
            status = EXIT_HARNESS
    if tot.obligations < meta.get('min_obligations', 1) and not args.only:
        lines.append(f'HARNESS-ERROR vacuity: only {tot.obligations} '
                     f'obligations reached')
        if status != EXIT_VIOLATION:
            status = EXIT_HARNESS

    wall = time.time() - t0
    discharged = tot.unsat
    exhaustive = (not tot.capped) and not errors
    ev = dict(
        property_id=pid, tier=tier, seed=seed, level='other',
        coverage=dict(
            explanation=(
                'Bounded symbolic execution of the real photutils functions '
                '(imported from /repo at check time) with z3 deciding every '
                'branch and every end-of-path obligation; paths are explored '
                'depth-first by re-execution. "exhaustive" means every '
                'feasible path within the stated bounds was explored and '
                'every obligation was answered unsat; unknown answers are '
                'inconclusive and counted separately. ' + meta.get(
                    'explanation', '')),
            evaluations=tot.paths,
            distinct_nontrivial=nontrivial,
            rule=('one evaluation = one feasible path of one harness case '
                  '(distinct by construction: DFS over solver-decided '
                  'branch outcomes); non-trivial = path reached at least one '
                  'obligation (assertion site) with a satisfiable path '
                  'condition. ' + meta.get('rule', '')),
            samples=samples[:12],
            obligations=tot.obligations,
            discharged=discharged,
            sat_candidates=tot.sat,
            unknown=tot.unknown,
            branch_feasibility_checks=tot.branch_checks,
            branch_unknown=tot.branch_unknown,
            paths_aborted_infeasible=tot.aborted,
            paths_out_of_model=tot.out_of_model,
            solver_seconds=round(tot.solver_s, 2),
            solver='z3 ' + _z3v(),
            exhaustive=bool(exhaustive and tot.unknown == 0),
            capped=tot.capped,
            cases=len(cases),
            per_case=per_case[:400],
            twins_run=twins_run,
            twins_detected=sum(1 for n in twin_findings.values() if n),
            twin_paths=twin_tot.paths,
            twin_obligations=twin_tot.obligations,
            twin_refuted_obligations=twin_tot.sat,
            functions_encoded=[dict(name=q, sha1=src_hash(q))
                               for q in meta.get('functions', [])],
            bounds=meta.get('bounds', ''),
            stubs=meta.get('stubs', []),
            outside_claim=meta.get('outside', []),
            replays=replays,
            known_findings_matched=known_hit,
            spurious=spurious,
            trusted_base=['z3 5.1', 'vf/sym.py', 'vf/facade.py',
                          'reals-for-floats (DESIGN 2.3)'],
        ),
        assumptions=meta.get('assumptions', []),
        wall_s=round(wall, 2),
        violations=violations,
    )
    # (self-tests against a scratch tree write their evidence elsewhere)
    evdir = os.environ.get('VERIF_EVIDENCE_DIR') or os.path.join(
        VERIF, 'evidence')
    os.makedirs(evdir, exist_ok=True)
    with open(os.path.join(evdir, f'{pid}.json'), 'w') as fh:
        json.dump(jsonable(ev), fh, indent=1)
    for ln in lines:
        print(ln)
    tot_paths_all = tot.paths + twin_tot.paths
    print(f'{pid} tier={tier} cases={len(cases)} paths={tot.paths} '
          f'obligations={tot.obligations} unsat={tot.unsat} sat={tot.sat} '
          f'unknown={tot.unknown} twins={twins_run} capped={tot.capped} '
          f'solver_s={tot.solver_s:.1f} wall={wall:.1f}s exit={status}')
    return status


def _z3v():
    import z3
    return z3.get_version_string()


if __name__ == '__main__':
    sys.exit(main())
