"""Rational-function normal form for z3 real terms.

z3's nonlinear solver is slow on identities between quotients with long
rational coefficients (float constants such as pi or 1/(2 sqrt(2 ln 2)) are
exact 50-digit rationals in the model).  ``normal(t)`` rewrites a term built
from + - * / and integer powers into ``P / Q`` with P, Q polynomials (dicts
monomial -> Fraction); ``cross(a, b)`` returns the division-free z3 polynomial
``Pa*Qb - Pb*Qa`` (optionally reduced with ``s^2 -> 1 - c^2`` for declared
cos/sin pairs).  The *decision* stays with z3: callers discharge
``cross(a, b) == 0`` through ``ctx.holds`` - an identically-zero polynomial
simplifies to ``0 == 0`` and any other polynomial gives the solver an easy
satisfiable query whose model is the counterexample.
"""
from fractions import Fraction

import z3


class NotRational(Exception):
    pass


def _pmul(a, b):
    out = {}
    for ma, ca in a.items():
        for mb, cb in b.items():
            d = dict(ma)
            for v, e in mb:
                d[v] = d.get(v, 0) + e
            m = tuple(sorted(d.items()))
            c = out.get(m, 0) + ca * cb
            if c:
                out[m] = c
            else:
                out.pop(m, None)
    return out


def _padd(a, b, sign=1):
    out = dict(a)
    for m, c in b.items():
        c2 = out.get(m, 0) + sign * c
        if c2:
            out[m] = c2
        else:
            out.pop(m, None)
    return out


ONE = {(): Fraction(1)}


def _const(c):
    return {(): c} if c else {}


def _num(t):
    return Fraction(t.numerator_as_long(), t.denominator_as_long())


def normal(t, memo=None):
    """-> (P, Q) polynomials with t == P/Q wherever Q != 0."""
    memo = {} if memo is None else memo
    key = t.get_id()
    if key in memo:
        return memo[key]
    if z3.is_rational_value(t):
        r = (_const(_num(t)), ONE)
    elif z3.is_int_value(t):
        r = (_const(Fraction(t.as_long())), ONE)
    elif z3.is_const(t) and t.decl().kind() == z3.Z3_OP_UNINTERPRETED:
        r = ({((t.decl().name(), 1),): Fraction(1)}, ONE)
    elif z3.is_app(t):
        k = t.decl().kind()
        ch = [normal(c, memo) for c in t.children()]
        if k == z3.Z3_OP_ADD:
            p, q = ch[0]
            for p2, q2 in ch[1:]:
                if q == q2:
                    p = _padd(p, p2)
                else:
                    p = _padd(_pmul(p, q2), _pmul(p2, q))
                    q = _pmul(q, q2)
            r = (p, q)
        elif k == z3.Z3_OP_SUB:
            p, q = ch[0]
            for p2, q2 in ch[1:]:
                if q == q2:
                    p = _padd(p, p2, -1)
                else:
                    p = _padd(_pmul(p, q2), _pmul(p2, q), -1)
                    q = _pmul(q, q2)
            r = (p, q)
        elif k == z3.Z3_OP_UMINUS:
            p, q = ch[0]
            r = ({m: -c for m, c in p.items()}, q)
        elif k == z3.Z3_OP_MUL:
            p, q = ch[0]
            for p2, q2 in ch[1:]:
                p, q = _pmul(p, p2), _pmul(q, q2)
            r = (p, q)
        elif k == z3.Z3_OP_DIV:
            (p, q), (p2, q2) = ch
            r = (_pmul(p, q2), _pmul(q, p2))
        elif k == z3.Z3_OP_POWER:
            (p, q), (pe, qe) = ch
            if qe != ONE or list(pe) not in ([()], []):
                raise NotRational('symbolic exponent')
            e = pe.get((), Fraction(0))
            if e.denominator != 1 or e < 0 or e > 12:
                raise NotRational('exponent')
            rp, rq = ONE, ONE
            for _ in range(int(e)):
                rp, rq = _pmul(rp, p), _pmul(rq, q)
            r = (rp, rq)
        elif k == z3.Z3_OP_TO_REAL:
            r = ch[0]
        else:
            raise NotRational(str(t.decl()))
    else:
        raise NotRational(str(t))
    memo[key] = r
    return r


def _reduce(p, pairs):
    """replace s^2 by 1 - c^2 for each declared (c, s) name pair."""
    for cn, sn in pairs:
        changed = True
        while changed:
            changed = False
            out = {}
            for m, co in p.items():
                d = dict(m)
                e = d.get(sn, 0)
                if e >= 2:
                    changed = True
                    d[sn] = e - 2
                    if not d[sn]:
                        del d[sn]
                    m1 = tuple(sorted(d.items()))
                    d2 = dict(d)
                    d2[cn] = d2.get(cn, 0) + 2
                    m2 = tuple(sorted(d2.items()))
                    for mm, cc in ((m1, co), (m2, -co)):
                        v = out.get(mm, 0) + cc
                        if v:
                            out[mm] = v
                        else:
                            out.pop(mm, None)
                else:
                    v = out.get(m, 0) + co
                    if v:
                        out[m] = v
                    else:
                        out.pop(m, None)
            p = out
    return p


def to_z3(p):
    tot = z3.RealVal(0)
    for m, c in sorted(p.items()):
        t = z3.RealVal(c)
        for v, e in m:
            for _ in range(e):
                t = t * z3.Real(v)
        tot = tot + t
    return z3.simplify(tot)


def cross(a, b, pairs=()):
    """division-free polynomial that is 0 iff a == b (where defined)."""
    memo = {}
    pa, qa = normal(a, memo)
    pb, qb = normal(b, memo)
    n = _padd(_pmul(pa, qb), _pmul(pb, qa), -1)
    return to_z3(_reduce(n, pairs))


def is_zero(a, b, pairs=()):
    try:
        c = cross(a, b, pairs)
    except NotRational:
        return False
    return z3.is_rational_value(c) and c.numerator_as_long() == 0
