"""NumPy facade: environment stubs with the NumPy contract, so that unmodified
photutils code can run on object arrays of symbolic values.  Installed by
rebinding attributes of the *numpy module object in this process* (and of
photutils.utils._stats); /repo is never edited.  Everything not listed here is
real NumPy.  Each stub delegates to the original for non-symbolic input.
"""
import math
import sys

import numpy as np
import z3

from .sym import (Ctx, SymArray, SymBool, SymInt, SymReal, _lift, _nanz,
                  const, is_sym)

STUBS = ['np.isfinite', 'np.isnan', 'np.isinf', 'np.asarray', 'np.asanyarray', 'np.array',
         'np.nansum', 'np.nanmin', 'np.nanmax', 'np.nanmean', 'np.nanmedian',
         'np.nanstd', 'np.nanvar', 'np.sqrt', 'np.floor', 'np.ceil',
         'np.hypot', 'np.ascontiguousarray', 'np.isscalar', 'np.min', 'np.max',
         'photutils.utils._stats.nan*']

_orig = {}
_installed = False


def _symarr(x):
    return isinstance(x, np.ndarray) and x.dtype == object


def _elem_isnan(e):
    if isinstance(e, SymReal):
        if e.nan is False:
            return False
        if e.nan is True:
            return True
        return bool(SymBool(e.nan))
    if isinstance(e, (float, np.floating)):
        return math.isnan(e)
    return False


def isnan(x, *a, **k):
    if _symarr(x):
        out = np.zeros(x.shape, bool)
        for idx in np.ndindex(*x.shape):
            out[idx] = _elem_isnan(x[idx])
        return out
    if isinstance(x, SymReal):
        return _elem_isnan(x)
    return _orig['isnan'](x, *a, **k)


def _elem_isfinite(e):
    if isinstance(e, SymReal):
        if e.inf is None:
            return not _elem_isnan(e)
        return bool(e.isfinite())
    if isinstance(e, (float, np.floating)):
        return math.isfinite(e)
    return True


def isfinite(x, *a, **k):
    if _symarr(x):
        out = np.zeros(x.shape, bool)
        for idx in np.ndindex(*x.shape):
            out[idx] = _elem_isfinite(x[idx])
        return out
    if isinstance(x, SymReal):
        return _elem_isfinite(x)
    return _orig['isfinite'](x, *a, **k)


def isinf(x, *a, **k):
    if _symarr(x):
        out = np.zeros(x.shape, bool)
        for idx in np.ndindex(*x.shape):
            e = x[idx]
            out[idx] = bool(e.isinf()) if isinstance(e, SymReal) else (
                isinstance(e, float) and math.isinf(e))
        return out
    if isinstance(x, SymReal):
        return bool(x.isinf())
    return _orig['isinf'](x, *a, **k)


def isscalar(x):
    if isinstance(x, (SymReal, SymBool)):
        return True
    return _orig['isscalar'](x)


def _wants_float(dtype):
    if dtype is None:
        return True
    try:
        return np.dtype(dtype).kind in 'fO'
    except TypeError:
        return False


def asarray(x, dtype=None, *a, **k):
    if _symarr(x) and _wants_float(dtype):
        return x if isinstance(x, SymArray) else x.view(SymArray)
    return _orig['asarray'](x, dtype, *a, **k)


def asanyarray(x, dtype=None, *a, **k):
    if _symarr(x) and _wants_float(dtype):
        return x if isinstance(x, SymArray) else x.view(SymArray)
    return _orig['asanyarray'](x, dtype, *a, **k)


def ascontiguousarray(x, dtype=None, *a, **k):
    if _symarr(x) and _wants_float(dtype):
        return x if isinstance(x, SymArray) else x.view(SymArray)
    return _orig['ascontiguousarray'](x, dtype, *a, **k)


def array(x, dtype=None, *a, **k):
    if _symarr(x) and _wants_float(dtype):
        copy = k.get('copy', True)
        r = x.copy() if copy or copy is None else x
        return r if isinstance(r, SymArray) else r.view(SymArray)
    if isinstance(x, SymReal):
        r = np.empty((), dtype=object)
        r[()] = x
        return r.view(SymArray)
    if isinstance(x, (list, tuple)) and dtype is not None and \
            _wants_float(dtype):
        r = _orig['array'](x, dtype=object)
        if r.size and any(isinstance(e, SymReal) for e in r.flat):
            return r.view(SymArray)
    r = _orig['array'](x, dtype, *a, **k)
    if isinstance(r, np.ndarray) and r.dtype == object and not isinstance(
            r, SymArray) and r.size and (any(
                isinstance(e, SymReal) for e in r.flat) or all(
                isinstance(e, (float, np.floating)) for e in r.flat)):
        # mixed concrete/symbolic (or an object array of plain floats that
        # came out of symbolic-capable code): lift the concrete numbers so that the
        # whole array follows IEEE-like semantics (e.g. x/0 -> non-finite
        # instead of Python's ZeroDivisionError)
        for idx in np.ndindex(*r.shape):
            e = r[idx]
            if isinstance(e, (float, int, np.floating, np.integer)) and \
                    not isinstance(e, (bool, np.bool_)):
                r[idx] = const(e)
        r = r.view(SymArray)
    return r


# --- nan-reductions ---------------------------------------------------------
NAN = SymReal(z3.RealVal(0), True)


def _sum(v):
    s = const(0)
    for e in v:
        s = s + e
    return s


def _ifmin(a, b):
    a, b = const(a), const(b)
    return SymReal(z3.If(b.e < a.e, b.e, a.e), False)


def _ifmax(a, b):
    a, b = const(a), const(b)
    return SymReal(z3.If(b.e > a.e, b.e, a.e), False)


def _extremum(v, want_max):
    """min/max of non-NaN values without forking: a fresh variable m with
    the defining constraints  m <= v_i for all i  and  m == v_i for some i
    (linear size; nested If-chains grow exponentially as trees)."""
    if not v:
        return NAN
    if len(v) == 1:
        return const(v[0])
    ctx = Ctx.cur
    es = [const(e).e for e in v]
    if len(v) == 2:
        a, b = es
        return SymReal(z3.If((b > a) if want_max else (b < a), b, a), False)
    m = ctx.fresh('max' if want_max else 'min')
    ctx.solver.add(z3.And([(m >= e) if want_max else (m <= e) for e in es]
                          + [z3.Or([m == e for e in es])]))
    return SymReal(m, False)


def _min(v):
    return _extremum(v, False)


def _max(v):
    return _extremum(v, True)


def _mean(v):
    return _sum(v) / len(v) if v else NAN


def _var(v):
    if not v:
        return NAN
    m = _mean(v)
    return _sum([(e - m) * (e - m) for e in v]) / len(v)


def _std(v):
    if not v:
        return NAN
    return _var(v).sqrt()


def _sorted(v):
    v = list(v)
    # insertion sort with symbolic comparisons (forks)
    for i in range(1, len(v)):
        j = i
        while j > 0 and v[j] < v[j - 1]:
            v[j], v[j - 1] = v[j - 1], v[j]
            j -= 1
    return v


def _median(v):
    if not v:
        return NAN
    s = _sorted(v)
    n = len(s)
    if n % 2:
        return s[n // 2]
    return (s[n // 2 - 1] + s[n // 2]) / 2


def _reduce(x, axis, f):
    x = np.asarray(x)
    if axis is None:
        return f([e for e in x.flat if not _elem_isnan(e)])
    if isinstance(axis, tuple):
        if len(axis) == x.ndim:
            return f([e for e in x.flat if not _elem_isnan(e)])
        raise NotImplementedError('tuple axis')
    x = np.moveaxis(x, axis, -1)
    out = np.empty(x.shape[:-1], dtype=object)
    for idx in np.ndindex(*x.shape[:-1]):
        out[idx] = f([e for e in x[idx] if not _elem_isnan(e)])
    return out.view(SymArray)


def _mk(name, f):
    def g(x, axis=None, *a, **k):
        if _symarr(x):
            return _reduce(x, axis, f)
        return _orig[name](x, axis, *a, **k)
    g.__name__ = name
    return g


def _mk2(name, f):
    def g(x, axis=None, *a, **k):
        if _symarr(x):
            return _reduce2(x, axis, f)
        return _orig[name](x, axis, *a, **k)
    g.__name__ = name
    return g


def _reduce2(x, axis, f):
    # plain (NaN-propagating) min/max: any NaN element -> NaN
    def ff(v):
        if any(_elem_isnan(e) for e in v):
            return NAN
        return f(v)
    if axis is None:
        return ff(list(np.asarray(x).flat))
    x = np.moveaxis(np.asarray(x), axis, -1)
    out = np.empty(x.shape[:-1], dtype=object)
    for idx in np.ndindex(*x.shape[:-1]):
        out[idx] = ff(list(x[idx]))
    return out.view(SymArray)


amin = _mk2('min', _min)
amax = _mk2('max', _max)
nansum = _mk('nansum', _sum)
nanmin = _mk('nanmin', _min)
nanmax = _mk('nanmax', _max)
nanmean = _mk('nanmean', _mean)
nanmedian = _mk('nanmedian', _median)
nanvar = _mk('nanvar', _var)
nanstd = _mk('nanstd', _std)


def _elementwise(name, f):
    def g(x, *a, **k):
        if isinstance(x, SymReal):
            return f(x)
        if isinstance(x, (list, tuple)) and any(
                isinstance(e, SymReal) for e in x):
            arr = np.empty(len(x), dtype=object)
            arr[:] = list(x)
            x = arr
        if _symarr(x):
            out = np.empty(x.shape, dtype=object)
            for idx in np.ndindex(*x.shape):
                e = x[idx]
                out[idx] = f(e) if isinstance(e, SymReal) else _orig[name](e)
            return out.view(SymArray) if out.ndim else out[()]
        return _orig[name](x, *a, **k)
    g.__name__ = name
    return g


sqrt = _elementwise('sqrt', lambda e: e.sqrt())
floor = _elementwise('floor', lambda e: e.floor())
ceil = _elementwise('ceil', lambda e: e.ceil())


def hypot(a, b, *r, **k):
    if is_sym(a) or is_sym(b):
        return sqrt(a * a + b * b)
    return _orig['hypot'](a, b, *r, **k)


_NAMES = ['isfinite', 'isnan', 'isinf', 'asarray', 'asanyarray', 'array', 'nansum',
          'nanmin', 'nanmax', 'nanmean', 'nanmedian', 'nanstd', 'nanvar',
          'sqrt', 'floor', 'ceil', 'hypot', 'ascontiguousarray', 'isscalar']


def sym_argmax(a):
    """Index (flat) of the first maximal non-NaN element of an object array;
    one solver-decided fork per candidate (n paths instead of n!)."""
    flat = list(a.flat)
    idx = [i for i, e in enumerate(flat) if not _elem_isnan(e)]
    if not idx:
        raise ValueError('All-NaN slice encountered')
    ctx = Ctx.cur
    for n, k in enumerate(idx):
        if n == len(idx) - 1:
            return k
        conds = []
        for j in idx:
            if j == k:
                continue
            c = (flat[k] > flat[j]) if j < k else (flat[k] >= flat[j])
            conds.append(c.e if isinstance(c, SymBool) else z3.BoolVal(
                bool(c)))
        if ctx.decide(z3.And(conds)):
            return k
    return idx[-1]


def _sym_argext(a, want_max):
    """argmin/argmax (first occurrence) for object arrays / masked object
    arrays; masked and NaN elements are skipped."""
    ctx = Ctx.cur
    if isinstance(a, np.ma.MaskedArray):
        m = np.ma.getmaskarray(a).ravel()
        flat = list(np.asarray(a.data).ravel())
    else:
        flat = list(np.asarray(a).ravel())
        m = np.zeros(len(flat), bool)
    idx = [i for i, e in enumerate(flat) if not m[i] and not _elem_isnan(e)]
    if not idx:
        return 0
    for n, k in enumerate(idx):
        if n == len(idx) - 1:
            return k
        conds = []
        for j in idx:
            if j == k:
                continue
            if want_max:
                c = (flat[k] > flat[j]) if j < k else (flat[k] >= flat[j])
            else:
                c = (flat[k] < flat[j]) if j < k else (flat[k] <= flat[j])
            conds.append(c.e if isinstance(c, SymBool) else z3.BoolVal(
                bool(c)))
        if ctx.decide(z3.And(conds)):
            return k
    return idx[-1]


def argmin(a, axis=None, *r, **k):
    if isinstance(a, np.ndarray) and a.dtype == object and axis is None:
        return _sym_argext(a, False)
    return _orig['argmin'](a, axis, *r, **k)


def argmax(a, axis=None, *r, **k):
    if isinstance(a, np.ndarray) and a.dtype == object and axis is None:
        return _sym_argext(a, True)
    return _orig['argmax'](a, axis, *r, **k)


class _UfuncProxy:
    """Callable that behaves like the facade function but forwards every
    other attribute (nin, nout, reduce, ...) to the original ufunc."""

    def __init__(self, f, orig):
        self._f = f
        self._orig = orig
        self.__name__ = getattr(orig, '__name__', 'ufunc')

    def __call__(self, *a, **k):
        return self._f(*a, **k)

    def __getattr__(self, k):
        return getattr(self._orig, k)


def install():
    global _installed
    if _installed:
        return
    _installed = True
    # import ufunc-introspecting packages before rebinding
    for m in ('astropy.modeling', 'astropy.modeling.models', 'astropy.units',
              'astropy.table', 'astropy.nddata', 'astropy.stats', 'scipy.ndimage',
              'photutils.aperture', 'photutils.segmentation',
              'photutils.background', 'photutils.centroids',
              'photutils.detection', 'photutils.profiles', 'photutils.psf',
              'photutils.datasets', 'photutils.isophote', 'photutils.utils'):
        try:
            __import__(m)
        except Exception:  # noqa
            pass
    try:
        from astropy.table import Table
        _oc = Table._convert_data_to_col

        def _convert(self, data, *a, **k):
            if isinstance(data, SymArray):
                data = data.view(np.ndarray)
            return _oc(self, data, *a, **k)
        Table._convert_data_to_col = _convert
    except Exception:  # noqa
        pass
    g = globals()
    for k in _NAMES:
        _orig[k] = getattr(np, k)
    _orig['det'] = np.linalg.det

    def det(a):
        a = np.asarray(a)
        if a.dtype == object and a.shape[-2:] == (2, 2):
            return a[..., 0, 0] * a[..., 1, 1] - a[..., 0, 1] * a[..., 1, 0]
        return _orig['det'](a)
    np.linalg.det = det
    _orig['argmin'] = np.argmin
    _orig['argmax'] = np.argmax
    np.argmin = argmin
    np.argmax = argmax
    _orig['min'] = np.min
    _orig['max'] = np.max
    np.min = np.amin = amin
    np.max = np.amax = amax
    for k in _NAMES:
        f = g[k]
        if isinstance(_orig[k], np.ufunc):
            f = _UfuncProxy(f, _orig[k])
        setattr(np, k, f)
    import photutils.utils._stats as st
    repl = {k: g[k] for k in ['nansum', 'nanmin', 'nanmax', 'nanmean',
                              'nanmedian', 'nanstd', 'nanvar']}
    olds = {k: getattr(st, k) for k in repl}
    for name, mod in list(sys.modules.items()):
        if name.startswith('photutils') and mod is not None:
            for k, f in repl.items():
                if getattr(mod, k, None) is olds[k]:
                    setattr(mod, k, f)
    for k, f in repl.items():
        setattr(st, k, f)


def uninstall():
    global _installed
    if not _installed:
        return
    for k in _NAMES:
        setattr(np, k, _orig[k])
    _installed = False
