import re, sys
CTYPES = r'(?:unsigned\s+int|double|int|bool|point|intersections|DTYPE_t)'
def convert(src):
    out = []
    lines = src.split('\n')
    i = 0
    skip_block_indent = None
    while i < len(lines):
        ln = lines[i]
        s = ln.strip()
        indent = len(ln) - len(ln.lstrip())
        if skip_block_indent is not None:
            if s == '' or indent > skip_block_indent:
                i += 1; continue
            skip_block_indent = None
        if s.startswith('cimport ') or s.startswith('from ') and ' cimport ' in s or s.startswith('ctypedef') and not s.endswith(':'):
            i += 1; continue
        if s.startswith('cdef extern') or (s.startswith('ctypedef struct')):
            skip_block_indent = indent; i += 1; continue
        # function defs (possibly multi-line)
        m = re.match(r'^(\s*)(cdef|def)\s+(?:' + CTYPES + r'\s+)?(\w+)\s*\(', ln)
        if m and (m.group(2) == 'def' or True) and not re.match(r'^\s*cdef\s+' + CTYPES + r'\s+\w+\s*(=|,|$)', ln):
            # gather until line ending with ':'
            full = ln
            while not full.rstrip().endswith(':'):
                i += 1
                full += ' ' + lines[i].strip()
            args = full[full.index('(') + 1: full.rindex(')')]
            names = []
            for a in args.split(','):
                a = a.strip()
                a = re.sub(r'^' + CTYPES + r'\s+', '', a)
                names.append(a)
            out.append(f'{m.group(1)}def {m.group(3)}({", ".join(names)}):')
            i += 1; continue
        # cdef declarations
        m = re.match(r'^(\s*)cdef\s+(?:np\.ndarray\[[^\]]*\]|' + CTYPES + r')\s+(.*)$', ln)
        if m:
            rest = m.group(2)
            if '=' in rest:
                out.append(f'{m.group(1)}{rest}')
            elif re.match(r'^\s*cdef\s+(point|intersections)\s', ln):
                for nm in rest.split(','):
                    out.append(f'{m.group(1)}{nm.strip()} = _S()')
            # else pure declaration: drop
            i += 1; continue
        out.append(ln)
        i += 1
    import ast
    tree = ast.parse('\n'.join(out))
    class T(ast.NodeTransformer):
        def visit_Assign(self, node):
            self.generic_visit(node)
            def wrap(v):
                if isinstance(v, (ast.Name, ast.Attribute)):
                    return ast.Call(ast.Name('_cp', ast.Load()), [v], [])
                if isinstance(v, ast.Tuple):
                    return ast.Tuple([wrap(e) for e in v.elts], ast.Load())
                return v
            node.value = wrap(node.value)
            return node
    tree = ast.fix_missing_locations(T().visit(tree))
    prelude = '''
import copy as _copy
class _S:
    def __getattr__(self, k):
        if k.startswith('__'): raise AttributeError(k)
        v = _S(); object.__setattr__(self, k, v); return v
def _cp(v):
    return _copy.deepcopy(v) if isinstance(v, _S) else v
'''
    return prelude + ast.unparse(tree)
if __name__ == '__main__':
    print(convert(open(sys.argv[1]).read()))
