"""SYM core: symbolic scalars (NaN-extended reals, ints, bools) that live inside
ordinary numpy object arrays, and a depth-first path explorer that re-executes
the harness (and therefore the *real* photutils code) once per feasible path.

Every Python ``if``/``bool()`` on a symbolic condition is decided by z3 under
the current path condition; both outcomes are explored when both are
satisfiable.  See DESIGN.md section 2.
"""
import math
import time
from fractions import Fraction

import sys

import numpy as np
import z3

if hasattr(sys, 'set_int_max_str_digits'):
    sys.set_int_max_str_digits(0)


class Abort(BaseException):
    """The current path is infeasible / pruned (not an error)."""


class OutOfModel(BaseException):
    """The path left the modelled fragment (e.g. needs +-inf)."""


class Stats:
    def __init__(self):
        self.paths = 0
        self.aborted = 0
        self.out_of_model = 0
        self.branch_checks = 0
        self.branch_unknown = 0
        self.obligations = 0
        self.unsat = 0
        self.sat = 0
        self.unknown = 0
        self.solver_s = 0.0
        self.capped = False

    def add(self, o):
        for k, v in o.__dict__.items():
            if isinstance(v, bool):
                setattr(self, k, getattr(self, k) or v)
            else:
                setattr(self, k, getattr(self, k) + v)

    def as_dict(self):
        d = dict(self.__dict__)
        d['solver_s'] = round(d['solver_s'], 3)
        return d


class Ctx:
    cur = None

    def __init__(self, stack, stats, lazy=False, timeout_ms=20000):
        self.solver = z3.Solver()
        self.solver.set('timeout', timeout_ms)
        self.stack = stack
        self.pos = 0
        self.stats = stats
        self.lazy = lazy
        self.nfresh = 0
        self.inputs = {}       # name -> z3 term (registered harness inputs)
        self.nanflags = {}     # name -> z3 Bool
        self.infsigns = {}     # name -> z3 Int sign
        self.trace = []        # human-readable decisions (for samples)
        self.findings = []
        self.notes = {}
        # defining constraints of sqrt variables (nonlinear); kept out of
        # the branch-feasibility solver unless the condition mentions them
        self.side = []
        self.decided = {}
        self._keep = []
        self._sn = {}

    # ---- variables -------------------------------------------------------
    def real(self, name, nan=False, inf=False):
        e = z3.Real(name)
        self.inputs[name] = e
        n = False
        i = None
        if nan:
            n = z3.Bool(name + '?nan')
            self.nanflags[name] = n
        if inf:
            i = z3.Int(name + '?inf')
            self.infsigns[name] = i
            self.solver.add(i >= -1, i <= 1)
        return SymReal(e, n, i)

    def int(self, name, lo=None, hi=None):
        e = z3.Int(name)
        self.inputs[name] = e
        if lo is not None:
            self.solver.add(e >= lo)
        if hi is not None:
            self.solver.add(e <= hi)
        return SymInt(e)

    def bool(self, name):
        e = z3.Bool(name)
        self.inputs[name] = e
        return SymBool(e)

    def choice(self, name, n_or_seq):
        """A solver-chosen member of a finite domain, concretised exhaustively
        (all-SAT): the explorer visits every admissible value."""
        if isinstance(n_or_seq, int):
            n, seq = n_or_seq, None
        else:
            seq = list(n_or_seq)
            n = len(seq)
        v = self.int(name, 0, n - 1).__index__()
        return v if seq is None else seq[v]

    def flag(self, name):
        return bool(self.bool(name))

    def fresh(self, prefix='t'):
        self.nfresh += 1
        return z3.Real(f'{prefix}!{self.nfresh}')

    def assume(self, cond):
        cond = _b(cond)
        self.solver.add(cond)

    def assume_feasible(self):
        r = self._check()
        if r == z3.unsat:
            raise Abort('assumptions infeasible')

    # ---- solver ----------------------------------------------------------
    def _check(self, *extra):
        t = time.time()
        r = self.solver.check(*extra)
        self.stats.solver_s += time.time() - t
        return r

    def decide(self, cond, label=None):
        cond = z3.simplify(cond)
        if z3.is_true(cond):
            return True
        if z3.is_false(cond):
            return False
        # structurally identical condition already decided on this path
        # (z3 terms are hash-consed): no fork, no solver call
        cid = cond.get_id()
        if cid in self.decided:
            return self.decided[cid]
        if self.pos < len(self.stack):
            ent = self.stack[self.pos]
            assert ent[0] == 'b', 'non-deterministic harness (decision kind)'
            taken = ent[1]
            self.pos += 1
            for c in self._side_for(cond):
                self.solver.add(c)
            self.solver.add(cond if taken else z3.Not(cond))
            self._remember(cond, taken)
            return taken
        if self.lazy:
            self.stack.append(['b', True, True])
            self.pos += 1
            self.solver.add(cond)
            self._remember(cond, True)
            return True
        self.stats.branch_checks += 2
        side = self._side_for(cond)
        for c in side:      # the decision depends on them: persist
            self.solver.add(c)
        rt = self._check(cond)
        rf = self._check(z3.Not(cond))
        if rt == z3.unknown or rf == z3.unknown:
            self.stats.branch_unknown += 1
        t_ok = rt != z3.unsat
        f_ok = rf != z3.unsat
        if not t_ok and not f_ok:
            raise Abort('infeasible')
        taken = t_ok
        self.stack.append(['b', taken, t_ok and f_ok])
        self.pos += 1
        self.solver.add(cond if taken else z3.Not(cond))
        self._remember(cond, taken)
        return taken

    def _remember(self, cond, taken):
        self.decided[cond.get_id()] = taken
        self._keep.append(cond)      # keep the AST alive (ids are reused)
        n = z3.simplify(z3.Not(cond))
        self.decided[n.get_id()] = not taken
        self._keep.append(n)

    def _side_for(self, cond):
        """side constraints relevant to a term (transitively)."""
        if not self.side:
            return []
        out = []
        used = set()
        names = _const_names(cond)
        changed = True
        while changed:
            changed = False
            for k, (v, c) in enumerate(self.side):
                if k not in used and str(v) in names:
                    used.add(k)
                    out.append(c)
                    names |= self._side_names(k, c)
                    changed = True
        return out

    def _side_names(self, k, c):
        if k not in self._sn:
            self._sn[k] = _const_names(c)
        return self._sn[k]

    def radicand(self, t):
        """If t is a sqrt variable, the term it is the square root of."""
        for v, c in self.side:
            if v.eq(t):
                return c.arg(1).arg(1).arg(1)
        return None

    def concretize(self, e):
        """All-SAT concretisation of an Int term."""
        e = z3.simplify(e)
        if z3.is_int_value(e):
            return e.as_long()
        if self.pos < len(self.stack):
            ent = self.stack[self.pos]
            assert ent[0] == 'i', 'non-deterministic harness (decision kind)'
            if ent[1] is not None:
                self.pos += 1
                for x in ent[2]:
                    self.solver.add(e != x)
                self.solver.add(e == ent[1])
                return ent[1]
        else:
            ent = ['i', None, [], False]
            self.stack.append(ent)
        for x in ent[2]:
            self.solver.add(e != x)
        self.stats.branch_checks += 1
        r = self._check()
        if r != z3.sat:
            ent[3] = True
            self.pos += 1
            if r == z3.unknown:
                self.stats.branch_unknown += 1
            raise Abort('int domain exhausted')
        v = self.solver.model().eval(e, model_completion=True).as_long()
        ent[1] = v
        self.pos += 1
        self.solver.add(e == v)
        return v

    # ---- obligations -----------------------------------------------------
    def holds(self, post, label=''):
        """Ask whether PC and not(post) is satisfiable.
        Returns ('unsat'|'sat'|'unknown', model-or-None)."""
        post = _b(post)
        self.stats.obligations += 1
        neg = z3.simplify(z3.Not(post))
        if z3.is_false(neg):
            self.stats.unsat += 1
            return 'unsat', None
        r = self._check(neg, *self._side_for(neg))
        if r == z3.unsat:
            self.stats.unsat += 1
            return 'unsat', None
        if r == z3.sat:
            self.stats.sat += 1
            return 'sat', self.solver.model()
        self.stats.unknown += 1
        return 'unknown', None

    def reachable(self):
        return self._check() != z3.unsat

    def witness(self, model=None):
        """Concrete values of all registered inputs under a model (or any
        model of the path condition)."""
        if model is None:
            if self._check() != z3.sat:
                return None
            model = self.solver.model()
        out = {}
        for k, e in self.inputs.items():
            out[k] = _pyval(model.eval(e, model_completion=True))
        for k, e in self.infsigns.items():
            sg = model.eval(e, model_completion=True).as_long()
            if sg:
                out[k] = float('inf') * sg
        for k, e in self.nanflags.items():
            if z3.is_true(model.eval(e, model_completion=True)):
                out[k] = float('nan')
        return out

    def find(self, key, detail, witness=None, **extra):
        """Record a candidate violation (to be replayed by the runner)."""
        self.findings.append(dict(key=key, detail=detail, witness=witness,
                                  **extra))


def _const_names(t):
    """names of the uninterpreted constants of a term (DAG walk)."""
    seen = set()
    names = set()
    stack = [t]
    while stack:
        e = stack.pop()
        i = e.get_id()
        if i in seen:
            continue
        seen.add(i)
        if z3.is_const(e):
            if e.decl().kind() == z3.Z3_OP_UNINTERPRETED:
                names.add(e.decl().name())
        else:
            stack.extend(e.children())
    return names


def _pyval(v):
    if z3.is_int_value(v):
        return v.as_long()
    if z3.is_rational_value(v):
        f = Fraction(v.numerator_as_long(), v.denominator_as_long())
        return float(f) if f.denominator != 1 else float(f.numerator)
    if z3.is_algebraic_value(v):
        return float(v.approx(20).as_fraction())
    if z3.is_true(v):
        return True
    if z3.is_false(v):
        return False
    return str(v)


def explore(fn, max_paths=200000, max_seconds=None, lazy=False,
            timeout_ms=20000, stats=None):
    """Run ``fn(ctx)`` once per feasible path.  Returns (results, stats,
    findings)."""
    stack = []
    results = []
    findings = []
    stats = stats or Stats()
    t0 = time.time()
    import os
    cap = float(os.environ.get('VERIF_CASE_SECONDS', '0') or 0)
    if cap and (max_seconds is None or max_seconds > cap):
        max_seconds = cap
    while True:
        ctx = Ctx(stack, stats, lazy=lazy, timeout_ms=timeout_ms)
        Ctx.cur = ctx
        try:
            r = fn(ctx)
            if r is not None:
                results.append(r)
        except Abort:
            stats.aborted += 1
        except OutOfModel:
            stats.out_of_model += 1
        finally:
            Ctx.cur = None
        findings.extend(ctx.findings)
        stats.paths += 1
        del stack[ctx.pos:]
        while stack:
            top = stack[-1]
            if top[0] == 'b':
                if top[2]:
                    stack[-1] = ['b', not top[1], False]
                    break
                stack.pop()
            else:
                if top[3]:
                    stack.pop()
                else:
                    top[2].append(top[1])
                    top[1] = None
                    break
        if not stack:
            break
        if stats.paths >= max_paths or (
                max_seconds is not None and time.time() - t0 > max_seconds):
            stats.capped = True
            break
    return results, stats, findings


# ---------------------------------------------------------------------------
# symbolic values
# ---------------------------------------------------------------------------
def _b(c):
    if isinstance(c, SymBool):
        return c.e
    if isinstance(c, (bool, np.bool_)):
        return z3.BoolVal(bool(c))
    return c


def _or(a, b):
    if a is False:
        return b
    if b is False:
        return a
    if a is True or b is True:
        return True
    return z3.Or(a, b)


def _nanz(n):
    return z3.BoolVal(n) if isinstance(n, bool) else n


def _lift(v):
    """-> (z3 real term, nan flag) or None."""
    if isinstance(v, SymInt):
        return z3.ToReal(v.e), False
    if isinstance(v, SymReal):
        return v.e, v.nan
    if isinstance(v, SymBool):
        return z3.If(v.e, z3.RealVal(1), z3.RealVal(0)), False
    if isinstance(v, (bool, np.bool_)):
        return z3.RealVal(int(v)), False
    if isinstance(v, (int, np.integer)):
        return z3.RealVal(int(v)), False
    if isinstance(v, (float, np.floating)):
        v = float(v)
        if math.isnan(v):
            return z3.RealVal(0), True
        if math.isinf(v):
            raise OutOfModel('infinite constant')
        return z3.RealVal(Fraction(v)), False
    if isinstance(v, Fraction):
        return z3.RealVal(v), False
    if isinstance(v, np.ndarray) and v.ndim == 0:
        return _lift(v.item())
    return None


def _syn_nonneg(e, depth=0):
    """Cheap syntactic proof that a real term is >= 0."""
    if depth > 40:
        return False
    if z3.is_rational_value(e):
        return e.numerator_as_long() >= 0
    if z3.is_int_value(e):
        return e.as_long() >= 0
    k = e.decl().kind()
    ch = e.children()
    if k == z3.Z3_OP_ADD:
        return all(_syn_nonneg(c, depth + 1) for c in ch)
    if k == z3.Z3_OP_MUL:
        rest = list(ch)
        # pair up syntactically equal factors
        i = 0
        while i < len(rest):
            j = next((j for j in range(i + 1, len(rest))
                      if rest[j].eq(rest[i])), None)
            if j is not None:
                del rest[j]
                del rest[i]
            else:
                i += 1
        return all(_syn_nonneg(c, depth + 1) for c in rest)
    if k == z3.Z3_OP_POWER:
        if z3.is_int_value(ch[1]) or z3.is_rational_value(ch[1]):
            try:
                n = ch[1].as_long()
                if n % 2 == 0:
                    return True
            except Exception:  # noqa
                pass
        return False
    if k == z3.Z3_OP_ITE:
        c, a, b = ch
        # abs pattern: If(x >= 0, x, -x)
        return (_syn_nonneg(a, depth + 1) and _syn_nonneg(b, depth + 1)) \
            or _is_abs(e)
    if k == z3.Z3_OP_DIV:
        return _syn_nonneg(ch[0], depth + 1) and z3.is_rational_value(
            ch[1]) and ch[1].numerator_as_long() > 0
    if k == z3.Z3_OP_TO_REAL:
        return _syn_nonneg(ch[0], depth + 1)
    return False


def _is_abs(e):
    c, a, b = e.children()
    try:
        if c.decl().kind() == z3.Z3_OP_GE and z3.is_rational_value(
                c.children()[1]) and c.children()[1].numerator_as_long() == 0:
            x = c.children()[0]
            return a.eq(x) and z3.simplify(b + x).eq(z3.RealVal(0))
    except Exception:  # noqa
        pass
    return False


def const(v):
    e, n = _lift(v)
    return SymReal(e, n)


class SymBool:
    __slots__ = ('e',)

    def __init__(self, e):
        self.e = e

    def __bool__(self):
        return Ctx.cur.decide(self.e)

    def __and__(self, o):
        if isinstance(o, np.ndarray):
            return NotImplemented
        return SymBool(z3.And(self.e, _b(o)))
    __rand__ = __and__

    def __or__(self, o):
        if isinstance(o, np.ndarray):
            return NotImplemented
        return SymBool(z3.Or(self.e, _b(o)))
    __ror__ = __or__

    def __xor__(self, o):
        if isinstance(o, np.ndarray):
            return NotImplemented
        return SymBool(z3.Xor(self.e, _b(o)))
    __rxor__ = __xor__

    # C-style arithmetic on truth values (``c += a < b``): decide, then add
    def __int__(self):
        return int(bool(self))

    def __add__(self, o):
        return int(bool(self)) + o

    __radd__ = __add__

    def __invert__(self):
        return SymBool(z3.Not(self.e))

    def __eq__(self, o):
        if isinstance(o, (SymBool, bool, np.bool_)):
            return SymBool(self.e == _b(o))
        return NotImplemented

    def __ne__(self, o):
        if isinstance(o, (SymBool, bool, np.bool_)):
            return SymBool(self.e != _b(o))
        return NotImplemented
    __hash__ = None

    def __repr__(self):
        return f'SymBool({self.e})'


class SymReal:
    __slots__ = ('e', 'nan', 'inf')

    def __init__(self, e, nan=False, inf=None):
        self.e = e
        self.nan = nan
        # None, or a z3 Int term in {-1, 0, +1}: sign of an infinite value
        # (0 = finite).  Infinite-capable values support comparisons and
        # isfinite/isnan only; arithmetic on them leaves the model.
        self.inf = inf

    # -- arithmetic
    def _bin(self, o, f, rev=False):
        if isinstance(o, np.ndarray) and o.ndim > 0:
            return NotImplemented
        if self.inf is not None or getattr(o, 'inf', None) is not None:
            raise OutOfModel('arithmetic on a possibly infinite value')
        l = _lift(o)
        if l is None:
            return NotImplemented
        oe, on = l
        e = f(oe, self.e) if rev else f(self.e, oe)
        return SymReal(e, _or(self.nan, on))

    def __add__(self, o): return self._bin(o, lambda a, b: a + b)
    def __radd__(self, o): return self._bin(o, lambda a, b: a + b, True)
    def __sub__(self, o): return self._bin(o, lambda a, b: a - b)
    def __rsub__(self, o): return self._bin(o, lambda a, b: a - b, True)
    def __mul__(self, o): return self._bin(o, lambda a, b: a * b)
    def __rmul__(self, o): return self._bin(o, lambda a, b: a * b, True)

    def _div(self, num, den):
        ne, nn = num
        de, dn = den
        ctx = Ctx.cur
        dz = z3.simplify(de == 0)
        if z3.is_false(dz):
            return SymReal(ne / de, _or(nn, dn))
        # fork: divisor zero -> non-finite (modelled as NaN; +-inf is outside
        # the model, see DESIGN 2.1)
        if ctx.decide(z3.And(z3.Not(_nanz(dn)), dz)):
            return SymReal(z3.RealVal(0), True)
        return SymReal(ne / de, _or(nn, dn))

    def __truediv__(self, o):
        if isinstance(o, np.ndarray) and o.ndim > 0:
            return NotImplemented
        l = _lift(o)
        if l is None:
            return NotImplemented
        return self._div((self.e, self.nan), l)

    def __rtruediv__(self, o):
        if isinstance(o, np.ndarray) and o.ndim > 0:
            return NotImplemented
        l = _lift(o)
        if l is None:
            return NotImplemented
        return self._div(l, (self.e, self.nan))

    def __neg__(self): return SymReal(-self.e, self.nan)
    def __pos__(self): return self

    def __abs__(self):
        return SymReal(z3.If(self.e >= 0, self.e, -self.e), self.nan)

    def __pow__(self, o):
        if isinstance(o, (float, np.floating)) and float(o) == int(o):
            o = int(o)
        if isinstance(o, (float, np.floating)) and float(o) == 0.5:
            return self.sqrt()
        if isinstance(o, (int, np.integer)) and 0 <= o <= 6:
            r = z3.RealVal(1)
            for _ in range(int(o)):
                r = r * self.e
            return SymReal(r, self.nan)
        if isinstance(o, SymReal):
            from .ufmath import env
            return env().pow(self, o)
        return NotImplemented

    def __rpow__(self, o):
        l = _lift(o)
        if l is None:
            return NotImplemented
        from .ufmath import env
        return env().pow(SymReal(l[0], l[1]), self)

    # transcendental functions: numpy's object loops call these methods;
    # they are only available inside a harness that attached an
    # axiomatised environment (vf/ufmath.py), otherwise out of model
    def exp(self):
        from .ufmath import env
        return env().exp(self)

    def cos(self):
        from .ufmath import env
        return env().cos(self)

    def sin(self):
        from .ufmath import env
        return env().sin(self)

    def deg2rad(self):
        return self * (math.pi / 180.0)

    def copy(self):
        return self

    # -- comparisons (IEEE: ordered comparisons with NaN are false)
    def _cmp(self, o, f, ne=False):
        if isinstance(o, np.ndarray) and o.ndim > 0:
            return NotImplemented
        oinf = getattr(o, 'inf', None)
        if isinstance(o, (float, np.floating)) and math.isinf(o):
            oinf = z3.IntVal(1 if o > 0 else -1)
            o = 0.0
        l = _lift(o)
        if l is None:
            return NotImplemented
        oe, on = l
        anynan = _or(self.nan, on)
        c = f(self.e, oe)
        if self.inf is not None or oinf is not None:
            sa = self.inf if self.inf is not None else z3.IntVal(0)
            sb = oinf if oinf is not None else z3.IntVal(0)
            c = z3.If(z3.And(sa == 0, sb == 0), c, f(sa, sb))
        if anynan is False:
            return SymBool(c)
        if ne:
            return SymBool(z3.Or(_nanz(anynan), c))
        return SymBool(z3.And(z3.Not(_nanz(anynan)), c))

    def __lt__(self, o): return self._cmp(o, lambda a, b: a < b)
    def __le__(self, o): return self._cmp(o, lambda a, b: a <= b)
    def __gt__(self, o): return self._cmp(o, lambda a, b: a > b)
    def __ge__(self, o): return self._cmp(o, lambda a, b: a >= b)
    def __eq__(self, o): return self._cmp(o, lambda a, b: a == b)
    def __ne__(self, o): return self._cmp(o, lambda a, b: a != b, True)
    __hash__ = None

    def isnan(self):
        return SymBool(_nanz(self.nan))

    def isinf(self):
        if self.inf is None:
            return SymBool(z3.BoolVal(False))
        return SymBool(z3.And(z3.Not(_nanz(self.nan)), self.inf != 0))

    def isfinite(self):
        c = z3.Not(_nanz(self.nan))
        if self.inf is not None:
            c = z3.And(c, self.inf == 0)
        return SymBool(c)

    def sqrt(self):
        ctx = Ctx.cur
        # negative radicand -> NaN (skip the fork when the radicand is
        # syntactically a sum of squares / non-negative products)
        neg = z3.simplify(self.e < 0)
        if not z3.is_false(neg) and not _syn_nonneg(self.e) and ctx.decide(
                z3.And(z3.Not(_nanz(self.nan)), neg)):
            return SymReal(z3.RealVal(0), True)
        s = ctx.fresh('sqrt')
        ctx.side.append((s, z3.Implies(z3.Not(_nanz(self.nan)),
                                       z3.And(s >= 0, s * s == self.e))))
        return SymReal(s, self.nan)

    def floor(self):
        return SymInt(z3.ToInt(self.e))

    def ceil(self):
        return SymInt(-z3.ToInt(-self.e))

    # math.floor/math.ceil must return an Integral: concretise exhaustively
    def __floor__(self): return Ctx.cur.concretize(self.floor().e)
    def __ceil__(self): return Ctx.cur.concretize(self.ceil().e)

    def __float__(self):
        raise OutOfModel('float() of a symbolic real requested')

    def __int__(self):
        raise OutOfModel('int() of a symbolic real requested')

    def __repr__(self):
        return f'SymReal({z3.simplify(self.e)}' + (
            '' if self.nan is False else f', nan={self.nan}') + ')'

    # numpy calls these on elements of object arrays
    def conjugate(self): return self
    @property
    def real(self): return self
    @property
    def imag(self): return 0.0


class SymInt(SymReal):
    """z3 Int.  Arithmetic with ints stays Int; with reals promotes."""
    __slots__ = ()

    def __init__(self, e):
        SymReal.__init__(self, e, False)

    @staticmethod
    def _isint(o):
        return isinstance(o, (SymInt, int, np.integer)) and not isinstance(
            o, (bool, np.bool_))

    @staticmethod
    def _ie(o):
        return o.e if isinstance(o, SymInt) else z3.IntVal(int(o))

    def _ibin(self, o, f, rev=False):
        if isinstance(o, np.ndarray) and o.ndim > 0:
            return NotImplemented
        if SymInt._isint(o):
            oe = SymInt._ie(o)
            return SymInt(f(oe, self.e) if rev else f(self.e, oe))
        return None

    def __add__(self, o):
        r = self._ibin(o, lambda a, b: a + b)
        return self._asreal().__add__(o) if r is None else r

    def __radd__(self, o):
        r = self._ibin(o, lambda a, b: a + b, True)
        return self._asreal().__radd__(o) if r is None else r

    def __sub__(self, o):
        r = self._ibin(o, lambda a, b: a - b)
        return self._asreal().__sub__(o) if r is None else r

    def __rsub__(self, o):
        r = self._ibin(o, lambda a, b: a - b, True)
        return self._asreal().__rsub__(o) if r is None else r

    def __mul__(self, o):
        r = self._ibin(o, lambda a, b: a * b)
        return self._asreal().__mul__(o) if r is None else r

    def __rmul__(self, o):
        r = self._ibin(o, lambda a, b: a * b, True)
        return self._asreal().__rmul__(o) if r is None else r

    def __floordiv__(self, o):
        if SymInt._isint(o) and not isinstance(o, SymInt) and int(o) > 0:
            return SymInt(self.e / z3.IntVal(int(o)))
        return NotImplemented

    def __mod__(self, o):
        if SymInt._isint(o) and not isinstance(o, SymInt) and int(o) > 0:
            return SymInt(self.e % z3.IntVal(int(o)))
        return NotImplemented

    def __neg__(self): return SymInt(-self.e)
    def __abs__(self): return SymInt(z3.If(self.e >= 0, self.e, -self.e))

    def _asreal(self):
        return SymReal(z3.ToReal(self.e), False)

    def __truediv__(self, o): return self._asreal().__truediv__(o)
    def __rtruediv__(self, o): return self._asreal().__rtruediv__(o)

    def _cmp(self, o, f, ne=False):
        if isinstance(o, np.ndarray) and o.ndim > 0:
            return NotImplemented
        if SymInt._isint(o):
            return SymBool(f(self.e, SymInt._ie(o)))
        return self._asreal()._cmp(o, f, ne)

    def __lt__(self, o): return self._cmp(o, lambda a, b: a < b)
    def __le__(self, o): return self._cmp(o, lambda a, b: a <= b)
    def __gt__(self, o): return self._cmp(o, lambda a, b: a > b)
    def __ge__(self, o): return self._cmp(o, lambda a, b: a >= b)
    def __eq__(self, o): return self._cmp(o, lambda a, b: a == b)
    def __ne__(self, o): return self._cmp(o, lambda a, b: a != b, True)
    __hash__ = None

    def __index__(self):
        return Ctx.cur.concretize(self.e)

    def __int__(self):
        return Ctx.cur.concretize(self.e)

    def floor(self): return self
    def ceil(self): return self

    def __repr__(self):
        return f'SymInt({z3.simplify(self.e)})'


# ---------------------------------------------------------------------------
# helpers for harnesses
# ---------------------------------------------------------------------------
class SymArray(np.ndarray):
    """ndarray(dtype=object) of SymReal whose float conversions are copies."""

    def astype(self, dtype, *a, **k):
        if self.dtype == object and np.dtype(dtype).kind in 'fO':
            return self.copy()
        return super().astype(dtype, *a, **k)

    def __array_wrap__(self, obj, context=None, return_scalar=False):
        # reductions of an ndarray subclass come back as 0-d arrays of the
        # subclass; unwrap them to the element like plain object arrays do
        if obj.ndim == 0 and obj.dtype == object:
            return obj[()]
        return super().__array_wrap__(obj, context, return_scalar)


def symarray(ctx, name, shape, nan=False, inf=False):
    a = np.empty(shape, dtype=object)
    for idx in np.ndindex(*shape):
        a[idx] = ctx.real(name + '_' + '_'.join(map(str, idx)), nan=nan,
                          inf=inf)
    return a.view(SymArray)


def symmask(ctx, name, shape):
    """Boolean mask whose bits are solver-chosen (forks per bit)."""
    m = np.zeros(shape, bool)
    for idx in np.ndindex(*shape):
        m[idx] = ctx.flag(name + '_' + '_'.join(map(str, idx)))
    return m


def is_sym(x):
    return isinstance(x, (SymReal, SymBool)) or (
        isinstance(x, np.ndarray) and x.dtype == object)


def term(x):
    """z3 real term of a value (ignores NaN flag)."""
    return _lift(x)[0]


def nanflag(x):
    return _nanz(_lift(x)[1])


def infsign(x):
    i = getattr(x, 'inf', None)
    return z3.IntVal(0) if i is None else i


def same(a, b):
    """z3 Bool: NaN-aware equality of two values (NaN == NaN)."""
    ae, an = _lift(a)
    be, bn = _lift(b)
    an, bn = _nanz(an), _nanz(bn)
    return z3.And(an == bn, z3.Or(an, ae == be))


def poly_equal(a, b):
    """True if a - b simplifies to 0 as a polynomial (sum-of-monomials
    normal form); sound but incomplete (False = not shown)."""
    d = z3.simplify(a - b, som=True, mul_to_power=True, flat=True)
    return z3.is_rational_value(d) and d.numerator_as_long() == 0


def zsum(terms):
    r = z3.RealVal(0)
    for t in terms:
        r = r + t
    return r
