#!/bin/bash
# usage: mkworktree.sh <dir>  -- scratch worktree of /repo HEAD incl. the compiled (git-ignored) build products
set -e
D=$1
git -C /repo worktree add -q --detach "$D" "${2:-HEAD}"
cd /repo
for f in photutils/version.py photutils/compiler_version*.so photutils/geometry/*.so; do cp "$f" "$D/$f"; done
echo "$D ready"
