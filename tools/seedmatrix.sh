#!/bin/bash
# Runs, for every seeded change, the quick check of its property against the patched /repo; prints a table.
# (Serial: each run patches /repo.)  usage: seedmatrix.sh [extra-id-map]
cd /verif
for d in ${SEEDGLOB:-seeded/*/[12]}; do
  id=$(basename $(dirname $d)); n=$(basename $d)
  cd /repo; if git apply $OLDPWD/$d/patch.diff 2>/dev/null || git apply -3 $OLDPWD/$d/patch.diff >/dev/null 2>&1; then ok=1; else ok=0; git reset -q --hard HEAD; fi; cd /verif
  if [ $ok = 0 ]; then echo "$id/$n PATCH-CONFLICT"; continue; fi
  out=$(./check $id 2>&1); ec=$?
  v=$(echo "$out" | grep -c "^VIOLATION")
  k=$(echo "$out" | grep "^  key=" | head -1 | cut -c1-140)
  git -C /repo reset -q --hard HEAD
  echo "$id/$n exit=$ec violations=$v :: $k"
done
