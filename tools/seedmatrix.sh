#!/bin/bash
# Runs, for every seeded change, the quick check of its property against a scratch worktree of /repo
# with the change applied (tools/tryseed_wt.sh: /repo itself is never patched); prints a table.
# usage: [SEEDGLOB='seeded/*/4'] [TIER=quick] seedmatrix.sh
cd /verif
for d in ${SEEDGLOB:-seeded/*/[1234]}; do
  id=$(basename $(dirname $d)); n=$(basename $d)
  out=$(tools/tryseed_wt.sh $d/patch.diff $id --tier ${TIER:-quick} 2>&1)
  if echo "$out" | grep -q "patch does not apply"; then echo "$id/$n PATCH-CONFLICT"; continue; fi
  ec=$(echo "$out" | grep "^exit=" | tail -1 | cut -d= -f2)
  v=$(echo "$out" | grep -c "^VIOLATION")
  k=$(echo "$out" | grep "^  key=" | head -1 | cut -c1-140)
  echo "$id/$n exit=$ec violations=$v :: $k"
done
