#!/bin/bash
# Runs the repository's pinned test command with the verification guard OFF and
# compares with the recorded baseline (1731 passed; the 87 pre-existing
# failures are listed in tools/baseline_failed.txt).
unset PHOTUTILS_VERIF
cd /repo && /venv/bin/python -m pytest -ra -q -p no:cacheprovider --timeout=900 --continue-on-collection-errors --junitxml=/tmp/verif_baseline.junit.xml > /tmp/verif_baseline.log 2>&1
/venv/bin/python - <<'PY'
import xml.etree.ElementTree as ET, sys
t = ET.parse('/tmp/verif_baseline.junit.xml')
failed = set(); passed = 0
for tc in t.iter('testcase'):
    cid = tc.get('classname', '') + '::' + tc.get('name', '')
    if tc.find('failure') is not None or tc.find('error') is not None:
        failed.add(cid)
    elif tc.find('skipped') is None:
        passed += 1
base = set(open('/verif/tools/baseline_failed.txt').read().split('\n')) - {''}
new = sorted(failed - base)
print(f'passed={passed} failed={len(failed)} newly_failing={len(new)}')
for n in new:
    print('NEW FAILURE', n)
sys.exit(1 if new or passed < 1731 else 0)
PY
