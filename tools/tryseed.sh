#!/bin/bash
# usage: tryseed.sh <patch.diff> <check-id> [extra check args]  -- apply a seeded change to /repo, run a check, undo.
P=$1; ID=$2; shift 2
cd /repo && git apply "$P" || { echo "patch does not apply"; exit 9; }
cd /verif; ./check $ID "$@" 2>&1 | grep -v "^  File\|^    " | tail -8
echo "exit=${PIPESTATUS[0]}"
git -C /repo checkout -- .
