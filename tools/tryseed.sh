#!/bin/bash
# usage: tryseed.sh <patch.diff> <check-id> [extra check args]  -- apply a seeded change to /repo, run a check, undo.
P=$1; ID=$2; shift 2
cd /repo && { git apply "$P" 2>/dev/null || git apply -3 "$P"; } || { echo "patch does not apply"; git -C /repo reset -q --hard HEAD; exit 9; }
cd /verif; ./check $ID "$@" 2>&1 | grep -v "^  File\|^    " | tail -8
echo "exit=${PIPESTATUS[0]}"
git -C /repo reset -q --hard HEAD
