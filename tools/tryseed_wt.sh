#!/bin/bash
# usage: tryseed_wt.sh <patch.diff> <check-id> [extra check args]
# Like tryseed.sh but never touches /repo: applies the seeded change in a scratch
# worktree and points the check at it (VERIF_REPO); evidence of such a self-test
# run goes to a temporary directory, not to /verif/evidence.
P=$(readlink -f "$1"); ID=$2; shift 2
WT=/tmp/wt/try-$ID-$$
/verif/tools/mkworktree.sh $WT >/dev/null || exit 9
cd $WT && { git apply "$P" 2>/dev/null || git apply -3 "$P" 2>/dev/null; } || { echo "patch does not apply"; cd /; git -C /repo worktree remove --force $WT; exit 9; }
cd /verif; VERIF_REPO=$WT VERIF_EVIDENCE_DIR=/tmp/wt/ev-$$ ./check $ID "$@" 2>&1 | grep -v "^  File\|^    " | tail -8
echo "exit=${PIPESTATUS[0]}"
cd /; git -C /repo worktree remove --force $WT; rm -rf /tmp/wt/ev-$$
