#!/usr/bin/env python3
"""Regenerates /verif/MANIFEST.json from the table below (single source)."""
import json
import os

HERE = os.path.dirname(os.path.dirname(os.path.abspath(__file__)))

TECH = ('bounded symbolic execution of the real photutils code (SYM: z3 '
        'terms in numpy object arrays, solver-decided path forking), z3 '
        'decides every end-of-path obligation; counterexamples replayed on '
        'the unshimmed library')

# id -> (design section, level text, level note, technique)
CLAIMED = {
    'C04': ('3/C04',
            'For every image up to 3x3 (thorough: 3x4, 4x4 and 5x5 images '
            'built from two-component templates), every real/NaN '
            'pixel value, scalar or per-pixel threshold, mask, npixels and '
            'both connectivities, the label image returned by the unmodified '
            'detect_sources equals the reference component labelling of the '
            'specification predicate, the pre-seeded caches equal a fresh '
            'SegmentationImage, None+warning iff nothing qualifies, and '
            'detect_threshold = background + nsigma*error. Bounded claim: '
            'says nothing beyond the stated sizes.',
            'floats as NaN-extended reals (no +-inf); scipy.ndimage.label '
            'runs natively on the per-path concrete pattern; z3 5.1; '
            'vf/sym.py explorer; reference labelling in vf/util.py',
            TECH),
    'C02': ('3/C02',
            'For every symbolic data/error image (NaN-extended reals) up to '
            '3x3 (thorough 4x4), every mask, every aperture-mask box position '
            'relative to the image (inside, straddling each edge, no '
            'overlap) and either symbolic weights in [0,1] or the compiled '
            'weights of a pool of 18 real apertures x 3 methods, '
            'do_photometry / area_overlap / ApertureMask.get_values, '
            'multiply, cutout, to_image return exactly the weighted sums over '
            'in-image, positive-weight, unmasked pixels (NaN iff the box '
            'misses the image), many positions equal one at a time, and the '
            'aperture_photometry table equals do_photometry for every call '
            'form (bare, NDData, units, aperture lists); sky apertures of '
            'the four classes x methods give exactly the numbers of their '
            'own to_pixel(wcs) image. Bounded claim.',
            'floats as NaN-extended reals; compiled mask weights taken as '
            'given in the real-mask flavour (C01 covers them); table/call-'
            'form part runs on concrete data with solver-enumerated call '
            'forms; the WCS transformation itself (wcslib) is not analysed',
            TECH),
    'C17': ('3/C17',
            'centroid_com: for all NaN-extended symbolic data and masks up '
            'to 3x3 (thorough 4x4) the result satisfies x*sum(d)=sum(x*d) '
            'over unmasked finite pixels, NaN iff the total is 0. '
            'centroid_quadratic: for every exactly quadratic input (symbolic '
            'coefficients / symbolic curvature about enumerated vertices) '
            'on 3x3..5x6 with fit boxes 3,5,(3,5) a returned non-edge point '
            'is the vertex and a concave peak never yields NaN; the fitted '
            'pixel set and coefficients commute with transposition for '
            'general symbolic data. centroid_sources: for every solver-'
            'chosen position list (1-2 sources, thorough 3), presence of '
            'mask/error/xpeak,ypeak and footprint the centroid function '
            'receives exactly the per-position cutouts of the ORIGINAL '
            'arrays and results are cutout result + offset. Concrete '
            'metamorphic family: centroid_com/quadratic/1dg/2dg x 3 scenes x '
            '{symmetry centre, flips, transposition, data*1e4, data*1e-17, '
            'values under the mask}.',
            'numpy.linalg.lstsq replaced by an exact rational solve; '
            'centroid_1dg/2dg only through the metamorphic relations '
            '(tolerance 2e-5 pixel); floats as reals',
            TECH),
    'C14': ('3/C14',
            'find_peaks (unmodified, scipy maximum_filter replaced by its '
            'definition on symbolic values): for all NaN-extended symbolic '
            'images up to 2x3/3x2 (thorough 3x3), scalar or 2-D thresholds '
            'of either sign, masks, border widths incl. 0 and asymmetric, '
            'box/footprint shapes and npeaks, the returned set is exactly '
            'the unmasked, non-border, finite pixels above threshold that '
            'equal their in-image neighbourhood maximum, top-npeaks by '
            'value, ids 1..N, None+warning iff empty; centroid_func '
            'receives each peak cutout. Star finders: the real '
            'apply_all_filters of DAO/IRAF/StarFinder catalogs on symbolic '
            'statistics keeps exactly the finite, inclusive-in-bounds, '
            '<=peakmax sources, N brightest, ids 1..N; _find_stars derives '
            'footprint and (ny,nx) border from kernel/min_separation; the '
            'full finder pipelines on a crowded concrete scene return only '
            'rows inside the configured bounds for 1560 solver-enumerated '
            'configurations (bounds, peakmax, brightest, exclude_border, '
            'xycoords).',
            'maximum_filter stub (definition); constant images excluded '
            '(documented None); statistics formulas themselves not covered',
            TECH),
    'C05': ('3/C05',
            'Solver-enumerated histories (0-2 attribute reads, then a '
            'mutator with every in-range argument combination; 2 mutators in '
            'the reduced/thorough tiers) over a pool of 8 start states incl. '
            'a real deblend result: after every step the array equals the '
            'set-theoretic reference (dtype kept, relabel => 1..N, width 0 '
            'removes nothing, invalid labels raise), every derived '
            'attribute equals that of a fresh SegmentationImage, one '
            'segment/polygon per label, and deblend bookkeeping names only '
            'present labels.',
            'finite-domain exploration driven by the solver (all-SAT), label '
            'arrays are concrete pool members; reference model in '
            'vf/props/c05.py',
            'solver-enumerated bounded histories (z3 all-SAT over finite '
            'operation/argument/read variables) executed on the real class '
            'and compared with a reference model and a fresh object'),
    'C08': ('3/C08',
            'For SourceCatalog (two scenes: mixed sources incl. a failing '
            'quadratic fit and a masked source; a grid of identical '
            'sources) and ApertureStats (4 positions incl. off-image), '
            'every index expression over 4 sources (ints, slices with '
            'negative/None bounds and steps, int lists, all boolean masks, '
            'get_label(s)/get_id(s)) combined with a pre-read of any public '
            'property on the parent: every public per-source property of '
            'the child equals the indexed value of a fully evaluated '
            'parent (NaN-aware, units, scalar results). Extra-property '
            'operations / named photometry on parent or child (histories '
            '<= 2) never change the other catalog.',
            'solver-enumerated finite index/pre-read/history space on '
            'concrete scenes; quick tier pre-reads a seed-rotated third of '
            'the properties, thorough all',
            'solver-enumerated index expressions and cache histories (z3 '
            'all-SAT) executed on the real catalog classes, compared with '
            'the indexed values of an independently evaluated parent'),
    'C09': ('3/C09',
            'Solver-chosen histories on one instance vs. a fresh instance: '
            'Background2D (every ordered selection of <=3 reads of 8 '
            'attributes, symbolic filter_threshold so that every filtering '
            'regime is a solver case, zoom/IDW interpolators, excluded '
            'meshes); RadialProfile/CurveOfGrowth (all normalize/'
            'unnormalize/read histories of length <=4); six aperture classes '
            '(attribute assignments interleaved with reads of bbox/area/'
            'shape/mask/edges, length <=3); PSFPhotometry / '
            'IterativePSFPhotometry and the three star finders (call '
            'histories of length 2 over finder/init_params/group_id/dataset '
            'requests). Every read equals the fresh value and nothing '
            'raises because of what came before.',
            'histories are finite-domain solver variables; scenes concrete; '
            'Ellipse and GriddedPSFModel histories are handled in C20/C13',
            'solver-enumerated bounded histories (z3 all-SAT; symbolic real '
            'filter_threshold forked by the real comparisons) executed on '
            'the real classes and compared with fresh instances'),
    'C19': ('3/C19',
            'For symbolic data and error arrays (NaN-extended, <=1 NaN '
            'each, <=1 masked pixel) on 4x4/4x6/6x4/5x5 images, every '
            'centre class (middle, near each edge, off the edge), radii '
            'starting at 0 or not, and the three methods: CurveOfGrowth.'
            'profile/profile_error/area equal the circular-aperture sums '
            'over unmasked finite pixels (weights from the aperture mask, '
            'registered independently), RadialProfile.profile*d(area) = '
            'd(flux) with errors in quadrature, and the caller\'s arrays are '
            'untouched. normalize/unnormalize/first-read/encircled-energy '
            'histories (length <=4) on concrete data: every array equals '
            'fresh/normalisation, calc_ee_at_radius(radii)=profile and '
            'calc_radius_at_ee inverts it on the monotone part. Non-negative '
            'symbolic data => non-decreasing curve of growth at the listed '
            'radii.',
            'compiled circular weights taken as given (C01); areas with '
            '1e-9 tolerance; monotonicity with 1e-12 relative slack',
            TECH),
    'C16': ('3/C16',
            'Unmodified ApertureStats on symbolic data (NaN-extended), '
            'error (optionally NaN), <=1 masked pixel and symbolic local '
            'background for a pool of 14 apertures (inside, overhanging '
            'each edge, no pixel centre inside, off-image, two positions) '
            'x 3 sum methods on 3x3 (thorough 3x4, 4x4): sum, sum_err, '
            'sum_aper_area equal the weighted sums over in-image, '
            'positive-weight, unmasked, finite pixels (NaN iff none); min, '
            'max, mean, var, std, median, raw moments and centroid equal '
            'their definitions on the centre-in-aperture pixel set after '
            'local-background subtraction; off-image/all-masked => NaN. A '
            'concrete differential family (3456 solver-enumerated '
            'scenarios: real SigmaClip or none, bad column, outliers, NaN, '
            'local background, sum_method, pedestal, circle / rotated '
            'ellipse) compares 24 columns - centre statistics incl. mode and '
            'MAD, sum/sum_err/sum_aper_area under the clip, centroid and '
            'moment-based shape values - with direct computations.',
            'compiled weights as given (C01); polynomial identities (var, '
            'std, sum_err) by normal-form comparison of the radicands; '
            'clipped statistics and shape values only on the concrete '
            'family; biweight/gini not covered',
            TECH),
    'C07': ('3/C07',
            'Unmodified SourceCatalog on symbolic data/error/background '
            '(data NaN-extended), <=1 masked pixel, optional symbolic '
            'convolved data or detection catalog, for 6 segmentation maps '
            '(touching, nested in one bounding box, single-pixel, '
            'edge-hugging, non-consecutive labels, disconnected label): '
            'segment_flux, segment_fluxerr, area, segment_area, bbox_*, '
            'min/max values and indices, raw and second-order central '
            'moments, centroid, background_sum/mean equal their definitions '
            'on the labelled, unmasked, finite pixels; fully masked => NaN '
            '(also for a label whose bounding box is not fully masked); '
            'renumbering the labels changes nothing (solver equality of two '
            'symbolic runs). Concrete differential families check the '
            'local-background relation segment_flux + area*local_background '
            '= sum(data) and 17 moment-based shape columns (covariance incl. '
            'the 1/12 rule, semi-axes, orientation, eccentricity, ..., '
            'cxx/cyy/cxy) against their textbook definitions on one scene x '
            'mask x NaN x negative pixels x convolved data.',
            'negative pixels of the moment image bounded to <=1 (thorough '
            '2); shape parameters only on the concrete family (LAPACK, '
            'arctan2); kron/fluxfrac/gini/perimeter not covered; row '
            'reordering is covered by the C08 check',
            TECH),
    'C11': ('3/C11',
            'Unmodified Background2D with symbolic-aware estimator/'
            'interpolator stubs passed through the public arguments, on '
            'symbolic data (NaN-extended) with solver-chosen mask and '
            'coverage bits, symbolic exclude_percentile and fill_value, '
            'shapes 4x4..5x5 with dividing / non-dividing / full-image '
            'boxes and both edge methods: every non-excluded mesh value is '
            'the estimator of exactly the unmasked, non-coverage, finite '
            'pixels of its (padded) box, npixels_mesh is their count, maps '
            'have the input shape, equal fill_value exactly on coverage '
            'pixels and the mesh value elsewhere, inputs untouched. The '
            'clauses that depend on the real estimators/interpolators '
            '(finite, mask-blind, constant reproduction, shift/scale '
            'equivariance, zoom within mesh range) are checked only as a '
            'concrete metamorphic family with tolerances over '
            'solver-enumerated configurations.',
            'stub estimators (mean, max-min), block-replication '
            'interpolator, sigma_clip=None in the symbolic part; IDW-filled '
            'values of excluded meshes not claimed',
            TECH),
    'C01': ('3/C01',
            'BoundingBox.from_float is the minimal integer box of every real '
            'rectangle with |coordinates|<4 (pixel-centre convention); '
            'get_overlap_slices selects exactly the common pixels (None iff '
            'none) for every integer box with corners in [-4,8] against '
            'every image shape in [1,4]^2, with slices_small the shifted '
            'slices_large; union/intersection/shape/extent/center equal '
            'their set definitions; _calc_extents of ellipse and rectangle '
            'are exactly the x/y support of the rotated shape for all sizes '
            'and rotations (NRA lemmas); to_mask hands the kernels the '
            'bbox edges recentred on the aperture with the documented mode '
            'translation and annulus = outer - inner on the same box; the '
            'three *_overlap_single_subpixel kernels (transliterated from '
            'the current .pyx text, cross-validated bit-for-bit against the '
            'compiled kernels) return the fraction of sub-pixel centres '
            'strictly inside the shape for symbolic pixel corner, sizes and '
            'rotation, subpixels 1..3; the exact circle kernel, algebraic '
            'skeleton: the quadrant split of circular_overlap_single_exact '
            'calls the core only on first-quadrant rectangles that are '
            'images, under a symmetry of the circle, of sub-rectangles '
            'tiling the pixel (areas add up, interiors disjoint) and sums '
            'their values; circular_overlap_core returns 0 / the full area '
            'exactly when no / every point of the rectangle is inside, and '
            'otherwise its chord end points lie on the circle and on the '
            'pixel boundary, the arc term is called once with them and the '
            'rest equals the shoelace area of (corners inside + end '
            'points); elliptical_overlap_single_exact maps the pixel corners '
            'into the unit-circle frame of the ellipse predicate, splits '
            'the image parallelogram into two triangles along a diagonal '
            'and scales the sum by the Jacobian rx*ry (triangle routine '
            'stubbed); cached bbox/edges follow attribute re-assignment. '
            'End to end on the public classes (solver-enumerated lattice: 6 '
            'shapes incl. annuli x centres x sizes x axis ratios x angles x '
            '4 methods, plus 13 degenerate configurations): weights in '
            '[0,1], exact sum = analytic area, center/subpixel weights = '
            'fraction of sub-pixel centres inside, tight bounding box. Six '
            'KNOWN-FINDINGs in the compiled exact ellipse kernel (a pixel '
            'corner exactly on the curve / tangency), also found by a '
            'symbolic harness of the real triangle routine.',
            'reals for floats (float64 sliver of from_float outside); exact '
            'kernels: arc-area correctness (asin) is decided only on the '
            'lattice, not for symbolic inputs; Cython absent: .pyx analysed '
            'via validated transliteration, kernel defects cannot be '
            'repaired here',
            TECH + '; z3 NRA lemmas for the geometric side conditions'),
    'C10': ('3/C10',
            '(a) the frame condition (caller-held arrays hold the same '
            'terms / bits / dtype after the call) on every explored path of '
            'the symbolic harnesses of C02, C04, C07, C11, C14, C16, C17, '
            'C19, where NaN flags, signs and mask bits are solver choices so '
            'every clean-up branch is reached; (b) for 31 entry points that '
            'cannot carry symbolic arrays (Background2D and the nine '
            'background estimators, LocalBackground, star finders, PSF '
            'photometry, fit_fwhm, Gaussian centroids, catalog, '
            'data_properties, profiles, ApertureMask methods, '
            'SegmentationImage reads, cutouts, ImagePSF/GriddedPSFModel, '
            'PSF matching, ePSF building, calc_total_error, '
            'detect_threshold, Ellipse, ...) every feasible combination of '
            'container (ndarray / MaskedArray / Quantity / strided view), '
            'NaN present, negative pixels inside sources, mask none/bool/'
            'int8, error given, with every lazy public property read, is '
            'executed and deep snapshots of data, error, mask, kernels, '
            'footprints, thresholds, tables, models, apertures and '
            'segmentation images are compared bit for bit (incl. memory '
            'outside a view).',
            'part (b) is a solver-enumerated finite product on one generated '
            'scene, not a for-all over data values',
            'frame condition inside the symbolic executions + '
            'solver-enumerated (z3 all-SAT) representation/data-condition '
            'vectors executed on the real entry points with bit-for-bit '
            'snapshot comparison'),
    'C15': ('3/C15',
            'process_quantities over every presence/unit vector of three '
            'inputs (raises iff units are mixed, else strips and returns the '
            'unit); symbolic arrays in Fortran-ordered / strided containers '
            'give solver-equal do_photometry, centroid_com and '
            'detect_sources results; and for 20 entry points (second batch: nine background estimators, LocalBackground, detect_threshold, data_properties, do_photometry + ApertureMask methods, fit_fwhm, detect+deblend) every '
            'representation of the same integer-valued scene (float32, '
            'int16/32/64, uint16, big-endian float64/float32, Fortran order, '
            'strided view, MaskedArray with empty mask, Quantity, NDData, '
            'mixed units) is compared with the float64 baseline: same '
            'numbers (float32 precision for float32 input), units carried, '
            'mixed units rejected, no representation fails where float64 '
            'succeeds.',
            'differential part: one scene, solver-enumerated finite product '
            'of entry points and representations; tolerances stated in the '
            'evidence; Background2D integer output rounding excepted as '
            'documented',
            'solver-enumerated representation vectors (z3 all-SAT) with '
            'differential execution against the float64 baseline; symbolic '
            'execution (SYM) for process_quantities-free layout independence'),
    'C18': ('3/C18',
            'make_model_image on a 9x11 image for every solver-chosen table '
            'of 1-2 rows (thorough 3) with ordered positions from a lattice '
            'of 12 (inside, half-integer, on the edge, outside by less / '
            'more than half a window on every side), window shapes 3,4,5,'
            '(3,5) or a per-row column, local_bkg present or not, plain or '
            'unit-ful model, parameter renaming with a same-named decoy '
            'column, three model kinds and three discretisations: the image '
            'equals the independent sum over rows of the model on the '
            'window clipped to the image plus local_bkg (1e-12), '
            'non-overlapping rows are skipped, units are carried for every '
            'overlap pattern, model and table are unchanged; row order and '
            'concatenation follow because every ordered selection is '
            'compared with an order-free oracle. PSFPhotometry residual '
            'image = data - model image exactly.',
            'finite lattice enumerated by the solver; model evaluation '
            'itself is concrete float code',
            'solver-enumerated parameter tables (z3 all-SAT over row order, '
            'positions, shapes, flags) executed on the real function and '
            'compared with an independent superposition oracle'),
    'C12': ('3/C12',
            'On a noise-free rendered 5-source scene (two blended pairs + '
            'one isolated source) the solver enumerates input row orders '
            '(12 of 120 in quick, all in thorough) x {6 supplied group_id '
            'partitions incl. interleaved membership, SourceGrouper, no '
            'grouping} x 4 masks x fixed-parameter choice: rows come back '
            'in input order with ids 1..N, group_id equals the supplied '
            'partition / the single-linkage clusters (first-appearance ids), '
            'group_size is the number of rows sharing the group, npixfit is '
            'the number of unmasked pixels of the fit window inside the '
            'image, fixed parameters keep their initial value, blended '
            'pairs fitted together recover x, y, flux; per-source results '
            'are invariant under row order, fluxes scale with the image for '
            'k in {3.5, 1e-3, 250} (k = 1e-9 is a recorded KNOWN-FINDING: '
            'the fit is not scale free), '
            'IterativePSFPhotometry(maxiters=1) equals PSFPhotometry (also '
            'when the residual contains new detections). SourceGrouper on a '
            'solver-chosen half-integer lattice equals union-find on '
            'distance <= min_separation.',
            'fits are concrete float computations with stated tolerances; '
            'one scene and one PSF model; xy_bounds flags not covered',
            'solver-enumerated bookkeeping inputs (z3 all-SAT over row '
            'order, partitions, masks, flags, lattice points) executed on '
            'the real photometry classes against rendered-truth and '
            'reference-model oracles'),
    'C13': ('3/C13',
            'Only the index-arithmetic clauses: ImagePSF.evaluate queries '
            'its spline at exactly the oversampled sample index k of the '
            'evaluation point for symbolic real x_0, y_0, flux, symbolic '
            'integer indices, oversampling 1,2,3,(2,4) and explicit or '
            'default origin, and returns fill_value exactly outside '
            '[0, n-1]; with the real spline it reproduces data*flux at '
            'interior samples. GriddedPSFModel (grids 2x2, 3x2, 2x3, 3x3, '
            'irregular spacing, shuffled grid_xypos, splines as '
            'uninterpreted values) returns, for every real (x_0, y_0), the '
            'bilinear blend of the four bounding ePSFs at the position '
            'clamped to the grid (stored ePSF at grid points, nearest edge '
            'value outside), and evaluation/copy/deepcopy histories give '
            'the value of a fresh model. Analytic models (real evaluate '
            'methods on symbolic centre, widths > 0, flux, angle, point; '
            'erf/exp/cos/sin/pow axiomatised): every Gaussian PRF block sum '
            'over [-N..N]^2 telescopes to flux/4 * d(erf)_x * d(erf)_y of the '
            'half-integer block edges scaled by 1/(sqrt2 sigma), pixels are '
            'flux/4 * positive per-axis factors (so >= 0 and block sums <= '
            'flux), point-symmetric, linear in flux, sigma/FWHM/elliptical'
            '(theta=0) forms agree; GaussianPSF exponent = -1/2 d^T '
            'Sigma^-1 d with Sigma = R diag R^T for every angle, amplitude '
            '* 2 pi sx sy = flux, equal widths = CircularGaussianPSF at any '
            'rotation, 0 <= value <= central value; MoffatPSF profile and '
            'amplitude flux (beta-1)/(pi alpha^2). Linking these to '
            '"sums/integrates to flux" uses erf(+-inf)=+-1 and the Gaussian '
            '/ Moffat integral formulas (trusted). AiryDiskPSF is only '
            'compared with the textbook formula on a solver-enumerated '
            'lattice (incl. r = 0).',
            'splines replaced by recording / uninterpreted stubs in the '
            'symbolic part; transcendental functions by axiomatised stubs '
            '(unsat is sound for the real functions; sat is reported only '
            'when the concrete replay reproduces it); floats as reals '
            '(outermost-sample round trip outside the claim); GaussianPRF '
            'block sums only at theta = 0 (per-pixel factorisation, sign, '
            'symmetry, linearity at every angle)',
            TECH),
    'C06': ('3/C06',
            'For 6 concrete blended scenes (incl. label gaps with an '
            'unrelated label just above nlabels, touching parents, nothing '
            'to deblend), every completion order of the per-source tasks '
            '(symbolic permutation chosen step by step by the solver inside '
            'a stubbed as_completed; up to 24 orders), label subsets, '
            'relabel, nlevels, contrast {0, 0.001, 0.3, 1}, modes and '
            'connectivities: the nproc>1 reassembly is bit-identical to '
            'nproc=1 (array, labels, deblend maps incl. key order) and the '
            'refinement invariants hold (non-zero footprint unchanged, '
            'children partition exactly one parent, each child >= npixels, '
            'unselected/untouched segments keep pixels and - without '
            'relabel - labels, relabel => 1..N, contrast=1 => unchanged, '
            'maps match the pixels, input image and its caches unmodified).',
            'scenes are concrete (watershed is compiled); the executor stub '
            'runs tasks in-process; one real spawn run is a smoke test only',
            'symbolic completion-order permutation (z3 all-SAT inside a '
            'stubbed as_completed) driving the real result-reassembly code, '
            'compared with the serial run and with set-theoretic '
            'refinement invariants'),
    'C20': ('3/C20',
            'Decided symbolically (NRA, all real sma>0, step in (0,1], both '
            'growth laws): update_sma grows strictly, reset_sma is its '
            'inverse and the inward sequence shrinks strictly (and stays '
            'positive for geometric growth); fit_image growth loops with a '
            'stubbed fit_isophote (symbolic sma0/step/minsma/maxsma, every '
            'stop-code sequence within the unrolling bound) return a list '
            'strictly increasing in sma, below maxsma, containing sma0. '
            'Checked as concrete oracles '
            'over solver-enumerated configurations (frames incl. wide with '
            'x0 > ny and tall, eps, PA, growth law, minsma/maxsma, fix_* '
            'flags, start offset, repeated calls): the isophote list is '
            'sorted by strictly increasing sma within the requested range, '
            'minsma=0 adds the central isophote, fixed parameters are '
            'honoured (1e-12; also after non-iterative outer isophotes, '
            'maxrit < maxsma), well-sampled isophotes recover centre, eps, '
            'PA and intensity within stated tolerances, build_ellipse_model '
            'reproduces the image inside the fitted region, the image is '
            'untouched, a later fit_image call equals a fresh object, and '
            'the scalar and array forms of to_polar agree on a lattice for '
            '11 position angles incl. negative ones.',
            'only the growth arithmetic is a solver proof within bounds; '
            'the harmonic fit itself (float least squares, arctan) has no '
            'decision procedure here and is exercised concretely',
            'SMT (z3 NRA) for the growth arithmetic; solver-enumerated '
            'configuration vectors with concrete rendered-truth oracles for '
            'the fit'),
    'C03': ('3/C03',
            'Metamorphic. Symbolic part: for positive symbolic images 2x3 '
            '(thorough 3x3) embedded at every integer offset of a zero '
            'canvas, detect_sources (labels, bbox, areas), find_peaks, '
            'centroid_com, do_photometry, ApertureStats (sum, centroid, '
            'bbox) and SourceCatalog (centroid, flux, max, bbox, extremum '
            'indices) on the canvas are solver-equal to the shifted results '
            'on the image; under transposition centroid_com, raw moments, '
            'do_photometry with the transposed aperture and SourceCatalog '
            'swap their x/y quantities. Concrete part (solver-enumerated '
            'offsets and pads on an asymmetric scene incl. a source whose '
            'quadratic fit fails): the three star finders, detect + '
            'deblend, a 27-column SourceCatalog table incl. orientation -> '
            '90deg - theta under transposition, aperture photometry / '
            'statistics, radial profiles incl. data_profile, and model '
            'rendering.',
            'embedded images positive, canvas zero, threshold >= 0; only '
            'sources whose footprint stays inside the original frame; '
            'integer translations',
            TECH + '; concrete metamorphic runs over solver-enumerated '
            'offsets for convolution / watershed / fit based code'),
}

NOT_YET = {}

ALL = [f'C{i:02d}' for i in range(1, 21)]


def main():
    checks = []
    for pid in ALL:
        if pid not in CLAIMED:
            continue
        sec, text, note, tech = CLAIMED[pid]
        checks.append(dict(
            property_id=pid,
            quick_cmd=f'./check {pid} --tier quick',
            thorough_cmd=f'./check {pid} --tier thorough',
            evidence_file=f'/verif/evidence/{pid}.json',
            replay_cmd_template=f'./check {pid} --replay {{path}}',
            engine='sym',
            level_claimed=dict(category='other', text=text,
                               design_ref='DESIGN.md section ' + sec),
            level_note=note,
            technique=tech,
        ))
    na = []
    for pid in ALL:
        if pid not in CLAIMED:
            na.append(dict(property_id=pid, reason=NOT_YET.get(
                pid, 'check not built yet in this session (planned in '
                'DESIGN.md section 3); no claim is made')))
    m = dict(
        version=1,
        setup_cmd='./setup.sh',
        hooks=dict(guard='PHOTUTILS_VERIF',
                   enable='no source hooks: checks import photutils from '
                          '/repo and rebind module globals from outside; '
                          'PHOTUTILS_VERIF=1 is exported by ./check but read '
                          'by nothing in /repo',
                   baseline_off_cmd='/verif/tools/baseline.sh',
                   source_commits=[],
                   add_only=True),
        engines=[dict(name='sym', path='/verif/vf',
                      serves_properties=sorted(CLAIMED),
                      kind_free_text='symbolic execution of the real Python '
                      'code with z3 (operator-overloading values in numpy '
                      'object arrays, DFS by re-execution); .pyx kernels via '
                      'validated transliteration')],
        checks=checks,
        notes='See DESIGN.md. Exit codes: 0 held, 1 VIOLATION (replayed), '
              '3 harness error / spurious model / vacuity guard.',
        not_applicable=na,
    )
    with open(os.path.join(HERE, 'MANIFEST.json'), 'w') as fh:
        json.dump(m, fh, indent=1)
    print('wrote MANIFEST.json with', len(checks), 'checks,', len(na),
          'not_applicable')


if __name__ == '__main__':
    main()
