#!/bin/bash
# usage: verify_seed.sh <ID> <n> : independently confirm a seeded change in a scratch worktree:
# demo passes clean, fails patched; full existing test suite shows no new failures with the patch.
ID=$1; N=$2; S=${SEEDROOT:-/tmp/seed_out}/$ID/$N; WT=/tmp/wt/v-$ID-$N
rm -rf $WT; /verif/tools/mkworktree.sh $WT ${BASE:-8203d59} >/dev/null || exit 9
cd $WT
PYTHONPATH=$WT /venv/bin/python $S/demo.py > $S/demo_clean.log 2>&1; DC=$?
git apply $S/patch.diff; AP=$?
PYTHONPATH=$WT /venv/bin/python $S/demo.py > $S/demo_patched.log 2>&1; DP=$?
/venv/bin/python -m pytest -ra -q -p no:cacheprovider --timeout=900 --continue-on-collection-errors --junitxml=$S/junit.xml > $S/suite.log 2>&1
/venv/bin/python - "$S" "$DC" "$AP" "$DP" <<'PY'
import sys, json, xml.etree.ElementTree as ET
S, dc, ap, dp = sys.argv[1], int(sys.argv[2]), int(sys.argv[3]), int(sys.argv[4])
t = ET.parse(S + '/junit.xml'); failed = set(); passed = 0
for tc in t.iter('testcase'):
    cid = tc.get('classname', '') + '::' + tc.get('name', '')
    if tc.find('failure') is not None or tc.find('error') is not None: failed.add(cid)
    elif tc.find('skipped') is None: passed += 1
base = set(open('/verif/tools/baseline_failed.txt').read().split('\n')) - {''}
new = sorted(failed - base)
ok = dc == 0 and ap == 0 and dp != 0 and not new and passed >= 1731
json.dump(dict(demo_clean_exit=dc, patch_applies=ap == 0, demo_patched_exit=dp, suite_passed=passed, suite_failed=len(failed), new_failures=new, confirmed=ok), open(S + '/verify.json', 'w'), indent=1)
print(S, 'CONFIRMED' if ok else 'REJECTED', dc, ap, dp, passed, len(new))
PY
cd /; git -C /repo worktree remove --force $WT; rm -f $S/junit.xml
