#!/bin/bash
# usage: runall.sh [tier]  -- run every claimed check sequentially, summarise
cd "$(dirname "$0")/.."; T=${1:-quick}
# (IDS="C14 C15" restricts the run)
for id in ${IDS:-$(python3 -c "import json; print(' '.join(c['property_id'] for c in json.load(open('MANIFEST.json'))['checks']))")}; do
  s=$(date +%s); out=$(./check $id --tier $T 2>&1 | tail -1); echo "$id $(( $(date +%s)-s ))s :: $out"
done
