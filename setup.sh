#!/bin/bash
# Build the offline overlay environment used by every check (idempotent).
# /venv (repo deps) + wheelhouse (z3-solver, cvc5, crosshair-tool); photutils
# itself is imported from /repo's working tree.
set -e
cd "$(dirname "$0")"
V=/verif/.venv
if [ ! -x $V/bin/python ] || ! $V/bin/python -c "import z3, photutils, numpy" >/dev/null 2>&1; then
  rm -rf $V
  /venv/bin/python -m venv $V
  SP=$($V/bin/python -c "import site; print(site.getsitepackages()[0])")
  printf '/venv/lib/python3.12/site-packages\n/repo\n' > $SP/_base.pth
  PIP_NO_INDEX=1 $V/bin/pip install -q --no-index --find-links /opt/veriftools/wheels z3-solver cvc5 crosshair-tool >/dev/null 2>&1 || \
  PIP_NO_INDEX=1 $V/bin/pip install -q --no-index --find-links /opt/veriftools/wheels z3-solver
fi
$V/bin/python -c "import z3, photutils; print('setup ok: z3', z3.get_version_string(), 'photutils from', photutils.__file__)"
